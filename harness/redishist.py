"""C19: command histories on the real Redis backend (`cashews/backends/redis/backend.py` + `client.py`) running on the
stub `redis` package whose server is the Lean model.  Alphabet, generator, executor, canonical outputs.

An op is a JSON-able list, e.g. ["set", "k:a", "i-5", 8, "nx"]; TTLs / advances are ticks of 1/8 s (125 ms).
"""
from __future__ import annotations

import logging

from . import redisstub as rs
from . import vtime
from .core import HarnessError
from .vtime import CLOCK

logging.getLogger("cashews").setLevel(logging.CRITICAL + 1)
logging.getLogger("cashews.backends.redis.client").disabled = True

SENT = object()
MS = 125

SKEYS = ["k:a", "k:b", "k:a:1", "j:a"]
LKEYS = ["L:a"]
SETKEYS = ["S:x", "S:y"]
ZKEYS = ["Z:r"]
BKEYS = ["B:f"]
PATTERNS = ["k:*", "*:a", "k:*:1", "*", "k:a", "j*", "*a*", "**", "nomatch*"]
GM_PATTERNS = ["k:*", "k:*:1", "k:a", "j*", "k:a*", "*:a"]      # get_match never sweeps bit arrays (B:f does not end in :a)
VALUES = {
    "i-5": -5, "i-1": -1, "i0": 0, "i1": 1, "i2": 2, "i10": 10,
    "t0": "t0", "t1": "t1", "t2": "t2", "none": None, "bytes": b"raw\x00", "true": True, "tuple": ("tu", 1), "digits": "123",
}
TOKENS = {"tokA": "tokA", "tokB": "tokB", "tok7": "7"}
TTLS = [None, None, 0, 1, 4, 8, 16, 80]
ADVS = [0, 1, 4, 8, 16, 40, 160]


def hx(s: str) -> str:
    return s.encode().hex()


# ---------------------------------------------------------------------------------------------- generator

def gen_op(rng, kinds):
    """one random op; `kinds` biases the mix"""
    r = rng.random
    pick = rng.choice

    def skey():
        # mostly string keys; now and then a key of another type (WRONGTYPE paths)
        # (S:x may hold a bit array, whose text is outside the model: it is never read or written as a string)
        if r() < 0.06:
            return pick(["S:y"] + ZKEYS + LKEYS)
        return pick(SKEYS)

    k = pick(kinds)
    if k == "set":
        return ["set", skey(), pick(list(VALUES)), pick(TTLS), pick(["a", "a", "nx", "xx"])]
    if k == "setmany":
        n = rng.randint(0, 3)
        return ["setmany", pick(TTLS), [[pick(SKEYS), pick(list(VALUES))] for _ in range(n)]]
    if k == "get":
        return ["get", pick(SKEYS + LKEYS + ["S:y"]) if r() < 0.15 else pick(SKEYS)]
    if k == "getmany":
        return ["getmany", [pick(SKEYS + ["S:y", "k:zz"]) for _ in range(rng.randint(0, 4))]]
    if k == "exists":
        return ["exists", pick(SKEYS + LKEYS + SETKEYS + BKEYS)]
    if k == "incr":
        return ["incr", skey(), pick([1, 1, 1, -1, 2, -3]), pick(TTLS)]
    if k == "delete":
        return ["delete", pick(SKEYS + SETKEYS + LKEYS)]
    if k == "delmany":
        return ["delmany", [pick(SKEYS + SETKEYS + BKEYS) for _ in range(rng.randint(0, 3))]]
    if k == "expire":
        return ["expire", pick(SKEYS + SETKEYS + BKEYS), pick([0, 1, 4, 8, 16, 80])]
    if k == "getexpire":
        return ["getexpire", pick(SKEYS + SETKEYS + ZKEYS + LKEYS)]
    if k == "clear":
        return ["clear"]
    if k == "keyscount":
        return ["keyscount"]
    if k == "scan":
        return ["scan", pick(PATTERNS), pick([100, 100, 1, 2, 3])]
    if k == "getmatch":
        return ["getmatch", pick(GM_PATTERNS), pick([100, 100, 1, 2, 3])]
    if k == "delmatch":
        return ["delmatch", pick(PATTERNS)]
    if k == "setlock":
        return ["setlock", pick(LKEYS + SKEYS[:1]), pick(list(TOKENS)), pick([1, 4, 8, 16, 80, None])]     # None: a lock without a lease
    if k == "unlock":
        return ["unlock", pick(LKEYS + SKEYS[:1] + ["S:y"]), pick(list(TOKENS))]
    if k == "islocked":
        return ["islocked", pick(LKEYS + SKEYS[:1])]
    if k == "setadd":
        return ["setadd", pick(SETKEYS + SKEYS[:1]) if r() < 0.1 else pick(SETKEYS), pick([None, None, 0, 4, 8, 80]),
                [pick(SKEYS) for _ in range(rng.randint(1, 3))]]
    if k == "setrem":
        return ["setrem", pick(SETKEYS), [pick(SKEYS) for _ in range(rng.randint(1, 2))]]
    if k == "setpop":
        return ["setpop", pick(SETKEYS + SKEYS[:1]) if r() < 0.1 else pick(SETKEYS), pick([100, 1, 2, 0])]
    if k == "getbits":
        return ["getbits", pick(BKEYS), pick([1, 2, 3]), [rng.randint(0, 5) for _ in range(rng.randint(0, 3))]]
    if k == "incrbits":
        return ["incrbits", pick(BKEYS + SETKEYS[:1]) if r() < 0.1 else pick(BKEYS), pick([1, 2, 3]), pick([1, 1, 2, -1, 9]),
                [rng.randint(0, 5) for _ in range(rng.randint(0, 3))]]
    if k == "sliceincr":
        stop = rng.randint(0, 40)
        return ["sliceincr", pick(ZKEYS + SKEYS[:1]) if r() < 0.08 else pick(ZKEYS), stop - pick([4, 8, 16]), stop, pick([1, 2, 3]),
                pick([None, 0, 8, 16])]
    if k == "ping":
        return ["ping"]
    if k == "adv":
        return ["adv", pick(ADVS)]
    raise HarnessError(f"unknown op kind {k}")


KIND_MIXES = {
    "kv": ["set"] * 5 + ["get"] * 4 + ["incr"] * 3 + ["setmany", "getmany", "getmany", "exists", "delete", "delmany", "expire",
           "getexpire", "getexpire", "adv", "adv", "adv", "scan", "getmatch", "delmatch", "keyscount", "clear", "ping"],
    "lock": ["setlock"] * 4 + ["unlock"] * 4 + ["islocked"] * 2 + ["adv"] * 3 + ["get", "set", "getexpire", "delete", "exists"],
    "sets": ["setadd"] * 4 + ["setrem"] * 2 + ["setpop"] * 3 + ["adv"] * 2 + ["getexpire", "exists", "delete", "scan", "keyscount", "getmany"],
    "bits": ["incrbits"] * 4 + ["getbits"] * 4 + ["adv", "expire", "exists", "delmany", "set", "get"],
    "slide": ["sliceincr"] * 6 + ["adv"] * 3 + ["getexpire", "exists", "delete"],
    "mix": ["set", "get", "incr", "incr", "setmany", "getmany", "exists", "delete", "expire", "getexpire", "adv", "adv", "scan",
            "getmatch", "delmatch", "setlock", "unlock", "islocked", "setadd", "setrem", "setpop", "getbits", "incrbits",
            "sliceincr", "ping", "keyscount", "clear", "delmany"],
}


def gen_history(rng, maxlen: int, mix: str | None = None):
    mix = mix or rng.choice(list(KIND_MIXES))
    kinds = KIND_MIXES[mix]
    n = rng.randint(1, maxlen)
    ops = [gen_op(rng, kinds) for _ in range(n)]
    if mix == "slide":
        # make the window arguments follow the virtual clock as the decorators do
        t = 0
        for op in ops:
            if op[0] == "adv":
                t += op[1]
            elif op[0] == "sliceincr":
                period = rng.choice([4, 8, 16])
                op[2], op[3] = t - period, t
    return ops


# ---------------------------------------------------------------------------------------------- model lines

def ttl_ms(t):
    return "-" if t is None else str(t * MS)


def bytes_tok(v) -> str:
    """a raw argument (lock token, window bound) as the model's Bytes"""
    if isinstance(v, int):
        return f"i:{v}"
    return "x:" + (v if isinstance(v, bytes) else str(v).encode()).hex()


class Codec:
    """Python values <-> model tokens.  A non-int object is identified with the bytes the *real* serializer produces."""

    def __init__(self, serializer, backend):
        self.ser = serializer
        self.backend = backend
        self.table: dict[str, str] = {}

    async def prepare(self):
        for name, v in VALUES.items():
            self.table[name] = await self.tok(v)
        return [t[2:] for t in self.table.values() if t.startswith("o:")]

    async def tok(self, v) -> str:
        if v is SENT:
            return "-"
        if isinstance(v, int) and not isinstance(v, bool):
            return f"i:{v}"
        enc = await self.ser.encode(self.backend, key="k", value=v, expire=None)
        if not isinstance(enc, bytes):
            raise HarnessError(f"serializer returned {type(enc).__name__} for {v!r}")
        return "o:" + enc.hex()


def model_line(op, codec: Codec) -> str:
    n = op[0]
    if n == "set":
        return f"set {hx(op[1])} {codec.table[op[2]]} {ttl_ms(op[3])} {op[4]}"
    if n == "setmany":
        # a Python dict keeps the first position of a repeated key and its last value
        d = {}
        for k, v in op[2]:
            d[k] = v
        return " ".join(["setmany", ttl_ms(op[1])] + [f"{hx(k)}={codec.table[v]}" for k, v in d.items()])
    if n in ("get", "exists", "delete", "getexpire", "islocked"):
        return f"{n} {hx(op[1])}"
    if n in ("getmany", "delmany"):
        return " ".join([n] + [hx(k) for k in op[1]])
    if n == "incr":
        return f"incr {hx(op[1])} {op[2]} {ttl_ms(op[3])}"
    if n == "expire":
        return f"expire {hx(op[1])} {op[2] * MS}"
    if n in ("clear", "keyscount", "ping"):
        return n
    if n in ("scan", "getmatch"):
        return f"{n} {hx(op[1])} {op[2]}"
    if n == "delmatch":
        return f"delmatch {hx(op[1])}"
    if n == "setlock":
        return f"setlock {hx(op[1])} {bytes_tok(TOKENS[op[2]])} {(op[3] or 0) * MS}"       # (0 = no lease: `expire=None`)
    if n == "unlock":
        return f"unlock {hx(op[1])} {bytes_tok(TOKENS[op[2]])}"
    if n == "setadd":
        return " ".join(["setadd", hx(op[1]), ttl_ms(op[2])] + [hx(m) for m in op[3]])
    if n == "setrem":
        return " ".join(["setrem", hx(op[1])] + [hx(m) for m in op[2]])
    if n == "setpop":
        return f"setpop {hx(op[1])} {op[2]}"
    if n == "getbits":
        return " ".join(["getbits", hx(op[1]), str(op[2])] + [str(i) for i in op[3]])
    if n == "incrbits":
        return " ".join(["incrbits", hx(op[1]), str(op[2]), str(op[3])] + [str(i) for i in op[4]])
    if n == "sliceincr":
        return f"sliceincr {hx(op[1])} {bytes_tok(op[2])} {bytes_tok(op[3])} {op[4]} {ttl_ms(op[5])}"
    if n == "adv":
        return f"adv {op[1] * MS}"
    raise HarnessError(f"unknown op {op!r}")


# ---------------------------------------------------------------------------------------------- executor

def secs(t):
    return None if t is None else t / 8


class Runner:
    """one case on the real code.  cfg = {"suppress": bool, "facade": bool}"""

    def __init__(self, drv: rs.PersistentDriver, cfg: dict, faults: list):
        self.drv = drv
        self.cfg = cfg
        self.faults = [tuple(f) for f in faults]
        self.server = rs.LeanServer(drv)
        self.server.down = lambda n: any(a <= n < b for a, b in self.faults)
        kind = cfg.get("fault", "conn")
        if kind == "os":
            self.server.fault_exc = OSError
        elif kind == "timeout":
            import asyncio
            self.server.fault_exc = asyncio.TimeoutError
        elif kind != "conn":
            raise HarnessError(f"unknown fault kind {kind}")

    async def setup(self):
        from cashews import Cache
        from cashews.backends.redis import Redis

        sup = bool(self.cfg.get("suppress", True))
        if self.drv.ask(f"reset {1 if sup else 0}") != "ok":
            raise HarnessError("driver refused reset")
        rs.unregister()
        rs.register(self.server, "redis://verif:6379")
        if self.cfg.get("facade"):
            cache = Cache()
            backend = cache.setup("redis://verif:6379", suppress=sup)
            await cache.init()
            self.api = cache
        else:
            backend = Redis(address="redis://verif:6379", suppress=sup)
            await backend.init()
            self.api = backend
        self.backend = backend
        self.codec = Codec(backend._serializer, backend)
        encs = await self.codec.prepare()
        if self.drv.ask("enc " + " ".join(encs)) != "ok":
            raise HarnessError("driver refused enc")
        if self.drv.ask("down " + " ".join(f"{a}-{b}" for a, b in self.faults)) != "ok":
            raise HarnessError("driver refused down")
        self.server.take_trace()

    async def exec_op(self, op) -> tuple[str, str]:
        """-> (canonical output, detail)"""
        from cashews.exceptions import CacheBackendInteractionError

        api = self.api
        n = op[0]
        tok = self.codec.tok
        try:
            if n == "set":
                r = await api.set(op[1], VALUES[op[2]], expire=secs(op[3]), exist={"a": None, "nx": False, "xx": True}[op[4]])
                return _bool(r), ""
            if n == "setmany":
                await api.set_many({k: VALUES[v] for k, v in op[2]}, expire=secs(op[1]))
                return "N", ""
            if n == "get":
                return "v=" + await tok(await api.get(op[1], default=SENT)), ""
            if n == "getmany":
                vs = await api.get_many(*op[1], default=SENT)
                if not isinstance(vs, tuple) or len(vs) != len(op[1]):
                    return f"?shape:{vs!r}", ""
                return "vs=" + ",".join([await tok(v) for v in vs]), ""
            if n == "exists":
                return _bool(await api.exists(op[1])), ""
            if n == "incr":
                return _int(await api.incr(op[1], op[2], expire=secs(op[3]))), ""
            if n == "delete":
                return _bool(await api.delete(op[1])), ""
            if n == "delmany":
                await api.delete_many(*op[1])
                return "N", ""
            if n == "expire":
                await api.expire(op[1], op[2] / 8)
                return "N", ""
            if n == "getexpire":
                return _int(await api.get_expire(op[1])), ""
            if n == "clear":
                await api.clear()
                return "N", ""
            if n == "keyscount":
                return _int(await api.get_keys_count()), ""
            if n == "scan":
                return "ks=" + ",".join([hx(k) async for k in api.scan(op[1], batch_size=op[2])]), ""
            if n == "getmatch":
                out = []
                async for k, v in api.get_match(op[1], batch_size=op[2]):
                    out.append(hx(k) + "=" + await tok(v))
                return "ps=" + ",".join(out), ""
            if n == "delmatch":
                await api.delete_match(op[1])
                return "N", ""
            if n == "setlock":
                return _bool(await api.set_lock(op[1], TOKENS[op[2]], None if op[3] is None else op[3] / 8)), ""
            if n == "unlock":
                return _int(await api.unlock(op[1], TOKENS[op[2]])), ""
            if n == "islocked":
                return _bool(await api.is_locked(op[1])), ""
            if n == "setadd":
                await api.set_add(op[1], *op[3], expire=secs(op[2]))
                return "N", ""
            if n == "setrem":
                await api.set_remove(op[1], *op[2])
                return "N", ""
            if n == "setpop":
                r = await api.set_pop(op[1], count=op[2])
                return "ks=" + ",".join(hx(k) for k in r), ""
            if n == "getbits":
                r = await api.get_bits(op[1], *op[3], size=op[2])
                return _ints(r), ""
            if n == "incrbits":
                r = await api.incr_bits(op[1], *op[4], size=op[2], by=op[3])
                return _ints(r), ""
            if n == "sliceincr":
                return _int(await api.slice_incr(op[1], op[2], op[3], op[4], expire=secs(op[5]))), ""
            if n == "ping":
                r = await api.ping()
                return ("PONG" if r == b"PONG" else f"?{r!r}"), ""
            if n == "adv":
                CLOCK.advance(op[1])
                return "N", ""
        except CacheBackendInteractionError:
            return "RAISE", ""
        except HarnessError:
            raise
        except Exception as exc:  # noqa: BLE001
            return "RAISEOTHER", f"{type(exc).__module__}.{type(exc).__name__}: {exc}"
        raise HarnessError(f"unknown op {op!r}")


def _bool(r) -> str:
    return "T" if r is True else "F" if r is False else f"?{type(r).__name__}:{r!r}"


def _int(r) -> str:
    if r is None:
        return "N"
    if isinstance(r, int) and not isinstance(r, bool):
        return f"n={r}"
    return f"?{type(r).__name__}:{r!r}"


def _ints(r) -> str:
    if not isinstance(r, tuple) or any(not isinstance(x, int) or isinstance(x, bool) for x in r):
        return f"?{type(r).__name__}:{r!r}"
    return "is=" + ",".join(str(x) for x in r)


def parse_answer(ans: str) -> dict:
    if not ans.startswith("model="):
        raise HarnessError(f"driver answered {ans!r}")
    return dict(p.split("=", 1) for p in ans.split(" "))


def run_case(drv, cfg, ops, faults):
    """Run one case on the implementation and, op by op, on the model.  Returns a list of step records."""

    async def go():
        rn = Runner(drv, cfg, faults)
        await rn.setup()
        steps = []
        for op in ops:
            calls0, fail0, ok0 = rn.server.calls, rn.server.failed_calls, rn.server.ok_calls
            out, detail = await rn.exec_op(op)
            trace = rn.server.take_trace()
            rn.server.sync_time()
            line = model_line(op, rn.codec)
            a = parse_answer(drv.ask("op " + line))
            d = drv.ask("dump")
            if not d.startswith("stub="):
                raise HarnessError(f"driver dump unparsable: {d!r}")
            steps.append({
                "op": op, "line": line, "impl": out, "detail": detail, "model": a["model"], "spec": a["spec"],
                "impl_wire": trace, "model_wire": [w for w in a["wire"].split("|") if w],
                "anydown": a["anydown"] == "T", "alldown": a["alldown"] == "T", "fv": a["fv"],
                "calls": rn.server.calls - calls0, "failed": rn.server.failed_calls - fail0, "ok": rn.server.ok_calls - ok0,
                "dump": d,
            })
        try:
            await rn.backend.close()
        except Exception:  # noqa: BLE001
            pass
        return steps

    try:
        return vtime.run(go)
    finally:
        rs.unregister()


def split_dump(d: str) -> tuple[str, str, str]:
    i1 = d.index(" model=")
    i2 = d.index(" spec=")
    return d[len("stub="):i1], d[i1 + len(" model="):i2], d[i2 + len(" spec="):]
