"""Command histories on the real in-memory backend (C01, C11): generator, executor, canonical output.

A history is a list of protocol lines (see lean/Drivers/C01.lean).  Keys are model numbers 0..n-1 and map
to the strings 'a','b',...; values are `i:<int>` (Python int), `t:<n>` (the string 't<n>') and `n` (None);
TTLs and time advances are ticks of 1/8 s.
"""
from __future__ import annotations

import asyncio

from . import vtime
from .vtime import CLOCK

SENT = object()
KEYNAMES = "abcdefghijklmnop"


def kname(i: int) -> str:
    return KEYNAMES[i]


def val_of(tok: str):
    if tok == "n":
        return None
    kind, x = tok.split(":")
    return int(x) if kind == "i" else f"t{x}"


def show_val(v) -> str:
    if v is SENT:
        return "-"
    if v is None:
        return "n"
    if isinstance(v, bool):
        return f"?bool:{v}"
    if isinstance(v, int):
        return f"i:{v}"
    if isinstance(v, str) and v.startswith("t") and v[1:].isdigit():
        return f"t:{v[1:]}"
    return f"?{type(v).__name__}:{v!r}"


def ttl_of(tok: str):
    return None if tok == "-" else int(tok) / 8


CONFIGS = {
    # name: (how the backend is built, commands through the Cache facade?, purge interval in ticks or 0)
    "raw": dict(facade=False, purge=0, url=None),
    "raw_purge": dict(facade=False, purge=8, url=None),
    "facade": dict(facade=True, purge=0, url="mem://?size={size}&check_interval=0"),
    "facade_purge": dict(facade=True, purge=8, url="mem://?size={size}&check_interval=1"),
    "facade_secret": dict(facade=True, purge=0, url="mem://?size={size}&check_interval=0&secret=s3cr3t&digestmod=sha1"),
    "facade_pickle": dict(facade=True, purge=0, url="mem://?size={size}&check_interval=0&pickle_type=default"),
}


class Runner:
    """Executes one history on the real code and returns the *effective* model lines with the
    implementation's canonical outputs (purge sweeps that really happened are spliced in as `purge`)."""

    def __init__(self, cfg: str, size: int):
        self.cfg = CONFIGS[cfg]
        self.size = size
        self.sweeps: list[float] = []
        self.stats: dict[str, int] = {}
        self.backend = None

    def _bump(self, k: str):
        self.stats[k] = self.stats.get(k, 0) + 1

    async def _setup(self):
        from cashews import Cache
        from cashews.backends.memory import Memory

        if self.cfg["facade"]:
            cache = Cache()
            backend = cache.setup(self.cfg["url"].format(size=self.size))
            await cache.init()
            self.api = cache
        else:
            backend = Memory(size=self.size, check_interval=self.cfg["purge"] / 8)
            await backend.init()
            self.api = backend
        self.backend = backend
        if self.cfg["purge"]:
            # make the sweeps of the real purge task observable: its per-key reads come from that task
            purge_task = getattr(backend, "_Memory__remove_expired_task")
            orig_get = backend.get
            runner = self

            async def get(key, default=None):
                if asyncio.current_task() is purge_task:
                    if not runner.sweeps or runner.sweeps[-1] != CLOCK.t:
                        runner.sweeps.append(CLOCK.t)
                return await orig_get(key, default=default)

            backend.get = get
            await asyncio.sleep(0)

    def _expired_unpurged(self, key: str) -> bool:
        ent = self.backend.store.get(key)
        return bool(ent and ent[0] is not None and ent[0] <= CLOCK.t)

    def _at_deadline(self, key: str) -> bool:
        ent = self.backend.store.get(key)
        return bool(ent and ent[0] is not None and ent[0] == CLOCK.t)

    async def _exec(self, w: list[str]) -> str:
        api = self.api
        op = w[0]
        if op in ("set", "get", "exists", "incr", "delete", "expire", "getexpire"):
            k = kname(int(w[1]))
            if self._expired_unpurged(k):
                self._bump(f"{op}{'_' + w[4] if op == 'set' else ''}_on_expired_unpurged")
            if self._at_deadline(k):
                self._bump(f"{op}_exactly_at_deadline")
        if op == "set":
            k, v, ttl, c = kname(int(w[1])), val_of(w[2]), ttl_of(w[3]), {"a": None, "nx": False, "xx": True}[w[4]]
            r = await api.set(k, v, expire=ttl, exist=c)
            return "T" if r is True else "F" if r is False else f"?{r!r}"
        if op == "setmany":
            pairs = {}
            for kv in w[2:]:
                k, v = kv.split("=")
                pairs[kname(int(k))] = val_of(v)
            r = await api.set_many(pairs, expire=ttl_of(w[1]))
            return "U" if r is None else f"?{r!r}"
        if op == "get":
            return "v=" + show_val(await api.get(kname(int(w[1])), default=SENT))
        if op == "getmany":
            r = await api.get_many(*[kname(int(x)) for x in w[1:]], default=SENT)
            return "vs=" + ",".join(show_val(v) for v in r)
        if op == "exists":
            r = await api.exists(kname(int(w[1])))
            return "T" if r is True else "F" if r is False else f"?{r!r}"
        if op == "incr":
            try:
                r = await api.incr(kname(int(w[1])), int(w[2]), expire=ttl_of(w[3]))
            except (ValueError, TypeError):
                return "E"
            return f"n={r}" if type(r) is int else f"?{r!r}"
        if op == "delete":
            r = await api.delete(kname(int(w[1])))
            return "T" if r is True else "F" if r is False else f"?{r!r}"
        if op == "delmany":
            r = await api.delete_many(*[kname(int(x)) for x in w[1:]])
            return "U" if r is None else f"?{r!r}"
        if op == "expire":
            t = ttl_of(w[2])
            r = await api.expire(kname(int(w[1])), t if t is not None else 0)
            return "U"
        if op == "getexpire":
            r = await api.get_expire(kname(int(w[1])))
            return f"n={r}" if type(r) is int else f"?{r!r}"
        if op == "clear":
            await api.clear()
            return "U"
        raise ValueError(f"bad op {w}")

    async def run(self, ops: list[str]) -> list[tuple[str, str]]:
        await self._setup()
        eff: list[tuple[str, str]] = []
        for line in ops:
            w = line.split()
            if w[0] == "adv":
                dt = int(w[1])
                if not self.cfg["purge"]:
                    CLOCK.advance(dt)
                    eff.append((line, "U"))
                    continue
                start = CLOCK.t
                self.sweeps.clear()
                await vtime.vsleep(dt)
                cur = start
                for s in self.sweeps:
                    eff.append((f"adv {round((s - cur) * 8)}", "U"))
                    eff.append(("purge", "U"))
                    cur = s
                eff.append((f"adv {round((CLOCK.t - cur) * 8)}", "U"))
                self.sweeps.clear()
                if round((CLOCK.t - start) * 8) != dt:
                    eff.append(("?clock", f"slept {dt} ticks but clock moved {(CLOCK.t - start) * 8}"))
                self._bump("purge_sweeps_spliced")
                continue
            try:
                out = await self._exec(w)
            except Exception as exc:  # an exception class the model does not know is itself a disagreement
                out = f"X:{type(exc).__name__}"
            eff.append((line, out))
        if hasattr(self.api, "close"):
            await self.api.close()
        return eff

    async def present_keys(self, n: int) -> list[int]:
        """which of the keys 0..n-1 the store physically holds (raw, non-touching probe)"""
        return [i for i in range(n) if kname(i) in self.backend.store]


def execute(cfg: str, size: int, ops: list[str]):
    r = Runner(cfg, size)
    eff = vtime.run(r.run, ops)
    return eff, r.stats


# ------------------------------------------------------------------------------------------------
# generator

TTLS = ["-", "-", "0", "1", "4", "8", "8", "16", "80"]
ADVS = [0, 1, 4, 7, 8, 8, 9, 16, 40, 160]
VALS = ["i:-1", "i:0", "i:1", "i:2", "i:3", "t:0", "t:1", "t:2", "t:3", "n"]


def gen_history(rng, nkeys: int, maxlen: int, weights: dict | None = None) -> list[str]:
    n = rng.randint(1, maxlen)
    ops = []
    k = lambda: str(rng.randrange(nkeys))
    table = [
        ("set", 18), ("setnx", 8), ("setxx", 6), ("setmany", 5), ("get", 12), ("getmany", 5), ("exists", 5),
        ("incr", 10), ("delete", 5), ("delmany", 2), ("expire", 6), ("getexpire", 8), ("clear", 1), ("adv", 22),
    ]
    if weights:
        table = [(a, weights.get(a, b)) for a, b in table]
    names, ws = zip(*table)
    for _ in range(n):
        op = rng.choices(names, ws)[0]
        if op == "set":
            ops.append(f"set {k()} {rng.choice(VALS)} {rng.choice(TTLS)} a")
        elif op == "setnx":
            ops.append(f"set {k()} {rng.choice(VALS)} {rng.choice(TTLS)} nx")
        elif op == "setxx":
            ops.append(f"set {k()} {rng.choice(VALS)} {rng.choice(TTLS)} xx")
        elif op == "setmany":
            ks = rng.sample(range(nkeys), rng.randint(1, min(3, nkeys)))
            ops.append(f"setmany {rng.choice(TTLS)} " + " ".join(f"{x}={rng.choice(VALS)}" for x in ks))
        elif op == "get":
            ops.append(f"get {k()}")
        elif op == "getmany":
            ops.append("getmany " + " ".join(k() for _ in range(rng.randint(1, 4))))
        elif op == "exists":
            ops.append(f"exists {k()}")
        elif op == "incr":
            ops.append(f"incr {k()} {rng.choice([1, 1, 1, 2, -1])} {rng.choice(TTLS)}")
        elif op == "delete":
            ops.append(f"delete {k()}")
        elif op == "delmany":
            ops.append("delmany " + " ".join(k() for _ in range(rng.randint(1, 3))))
        elif op == "expire":
            ops.append(f"expire {k()} {rng.choice(TTLS)}")
        elif op == "getexpire":
            ops.append(f"getexpire {k()}")
        elif op == "clear":
            ops.append("clear")
        else:
            ops.append(f"adv {rng.choice(ADVS)}")
    return ops
