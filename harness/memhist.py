"""Command histories on the real in-memory backend (C01, C11): generator, executor, canonical output.

A history is a list of protocol lines (see lean/Drivers/C01.lean).  Keys are model numbers 0..n-1 and map
to the strings 'a','b',...; values are `i:<int>` (Python int), `t:<n>` (the string 't<n>') and `n` (None);
TTLs and time advances are ticks of 1/8 s.

TTL spellings.  A TTL token is `-` (none), `<ticks>` or `<ticks>/<form>`.  The part after the slash says how the
duration is *spelled* when it is handed to the `Cache` facade (int, float, `timedelta` - whose `days` field is
non-zero from one day on -, duration strings such as '90s', '1d', '1d1m30s', ' 1D2H ', bare digits): see `spell`.
It exists on the Python side only: the model line is the token without the form (`plain`), i.e. the harness
converts the intended duration to ticks itself and never through `cashews.ttl`.  Bare backends (`facade=False`)
take numbers only and always get the float.

Clock resolution.  A configuration has a resolution `res` = ticks per second: 8 for the ordinary families, 2**20
(`FINE`, ticks of about 0.95 us) for the `*_fine` configurations, whose histories write TTLs that are not a whole
number of milliseconds (or of microseconds) and read inside the last millisecond before a deadline.  All instants and
TTLs stay dyadic, so every float sum and comparison in the code under test is exact; the model works in ticks
whatever they are worth, and only `get_expire` (whole seconds) needs the resolution: the driver is told it on the
`case` line (Model/Fine.lean `getExpireR`).

Container values.  `c:<n>` is the n-th entry of `CONTAINERS` (set, frozenset, list, dict, tuple, nested, empty
ones): opaque payloads for the model (`plain` rewrites them to the tokens `t:<500+n>`), recognised on the way back
by type *and* equality.

Purge sweeps.  With the purge task on, the real `Memory._remove_expired` runs on the virtual loop next to the
harness task.  The harness does not look at HOW the purge is implemented: the backend under test is a
subclass of `Memory` whose `store` attribute is a `LoggedStore` (an `OrderedDict` that reports every mutation,
and every re-binding of the attribute, together with the task that made it).  Everything a task other than the
harness's own does to the store is *background* activity; the background mutations of one virtual instant that
are not separated by an application command form one **sweep** and are spliced into the effective history as
one `purge` line (with the store content right after them).  Whether that sweep did what the model's atomic
`purge` does is then decided by the ordinary comparison (impl vs model vs spec / property oracle) - a purge
that works differently is never harness trouble.  A sweep that suspends between two keys shows up as several
`purge` lines at one instant with application commands between them.
"""
from __future__ import annotations

import asyncio
import re
from collections import OrderedDict
from datetime import timedelta

from . import vtime
from .vtime import CLOCK

SENT = object()
KEYNAMES = "abcdefghijklmnop"
SECOND_PREFIX = "b:"


def kname(i: int) -> str:
    return KEYNAMES[i]


# container payloads: what an application may well store; every read command has to hand them back as they are
CONTAINERS = [
    {1, 2}, set(), frozenset({1, 2}), frozenset(), [1, 2], [], {"a": 1}, {}, (1, 2), (), {"s": {1}}, [set()], ({1},), [[]],
    {"k": []}, b"", "",
]
CBASE = 500


def val_of(tok: str):
    if tok == "n":
        return None
    kind, x = tok.split(":")
    if kind == "c":
        return CONTAINERS[int(x)]
    if kind == "t" and int(x) >= CBASE:
        return CONTAINERS[int(x) - CBASE]
    if kind == "y":
        return f"y{x}".encode()  # a bytes payload: stored encoded (b"bytes:...") when a serializer is configured
    return int(x) if kind == "i" else f"t{x}"


def show_val(v) -> str:
    if v is SENT:
        return "-"
    if v is None:
        return "n"
    if isinstance(v, bool):
        return f"?bool:{v}"
    if isinstance(v, int):
        return f"i:{v}"
    if isinstance(v, str) and v.startswith("t") and v[1:].isdigit():
        return f"t:{v[1:]}"
    if isinstance(v, bytes) and v.startswith(b"y") and v[1:].isdigit():
        return f"y:{int(v[1:])}"
    for i, c in enumerate(CONTAINERS):
        if type(v) is type(c) and v == c:
            return f"t:{CBASE + i}"
    return f"?{type(v).__name__}:{v!r}"


# ---- TTL spellings ---------------------------------------------------------------------------------
# forms that can spell any whole number of ticks / only a whole number of seconds
FORMS_ANY = ("f", "td")
FORMS_WHOLE = ("i", "s", "ss", "sn", "s4", "sU")
FORMS = FORMS_ANY + FORMS_WHOLE
_FORM = re.compile(r"/[A-Za-z0-9]+")
_CVAL = re.compile(r"(?<![A-Za-z0-9])c:(\d+)")
HOUR, DAY = 8 * 3600, 8 * 86400         # in ticks of 1/8 s
FINE = 1 << 20                          # ticks per second of the `*_fine` configurations


def dhms(seconds: int):
    d, r = divmod(seconds, 86400)
    h, r = divmod(r, 3600)
    m, sec = divmod(r, 60)
    return d, h, m, sec


def spell(ticks: int, form: str, res: int = 8):
    """the duration of `ticks` (1/res s each; res a power of two) as the Python object the caller would write.
    A form that cannot express the value exactly (a fraction of a second as int / string, a fraction of a microsecond
    as timedelta) falls back to the float, which is exact."""
    whole = ticks % res == 0
    if form == "td" and (ticks % res) * 1000000 % res == 0:
        # what `timedelta(...)` normalises to: (days, seconds, microseconds) - `.seconds` alone is NOT the duration
        day = res * 86400
        return timedelta(days=ticks // day, seconds=(ticks % day) // res, microseconds=(ticks % res) * 1000000 // res)
    if form in ("", "f", "td") or not whole:
        return ticks / res
    n = ticks // res
    if form == "i":
        return n
    if form == "ss":
        return f"{n}s"
    if form == "sn":
        return str(n)
    d, h, m, sec = dhms(n)
    if form == "s4":
        return f"{d}d{h}h{m}m{sec}s"
    parts = "".join(f"{x}{u}" for x, u in ((d, "d"), (h, "h"), (m, "m"), (sec, "s")) if x) or "0s"
    if form == "s":
        return parts
    if form == "sU":
        return f" {parts.upper()} "
    raise ValueError(f"unknown ttl form {form!r}")


def ttl_of(tok: str, res: int = 8):
    if tok == "-":
        return None
    ticks, _, form = tok.partition("/")
    return spell(int(ticks), form, res)


def plain(line: str) -> str:
    """the model's view of a protocol line: TTLs in ticks, spellings dropped, container values as opaque tokens"""
    return _CVAL.sub(lambda m: f"t:{CBASE + int(m.group(1))}", _FORM.sub("", line))


def ttl_tokens(line: str) -> list[str]:
    w = line.split()
    if not w:
        return []
    at = {"set": 3, "setmany": 1, "incr": 3, "expire": 2}.get(w[0])
    return [w[at]] if at is not None and at < len(w) and w[at] != "-" else []


def describe(line: str, res: int = 8) -> str | None:
    """how the TTL / the container values of a line reach the code, for replay files: e.g.
    `ttl 691920/td -> datetime.timedelta(days=1, seconds=90)`, `c:0 -> {1, 2}`"""
    toks = ttl_tokens(line)
    out = [f"ttl {toks[0]} -> {ttl_of(toks[0], res)!r}"] if toks and ("/" in toks[0] or res != 8) else []
    out += [f"c:{n} -> {CONTAINERS[int(n)]!r}" for n in dict.fromkeys(_CVAL.findall(line))]
    return ", ".join(out) or None


CONFIGS = {
    # name: (how the backend is built, commands through the Cache facade?, purge interval in ticks or 0)
    "raw": dict(facade=False, purge=0, url=None),
    "raw_purge": dict(facade=False, purge=8, url=None),
    "facade": dict(facade=True, purge=0, url="vmem://?size={size}&check_interval=0"),
    "facade_purge": dict(facade=True, purge=8, url="vmem://?size={size}&check_interval=1"),
    "facade_secret": dict(facade=True, purge=0, url="vmem://?size={size}&check_interval=0&secret=s3cr3t&digestmod=sha1"),
    "facade_pickle": dict(facade=True, purge=0, url="vmem://?size={size}&check_interval=0&pickle_type=default"),
    # two backends behind one facade, routed by key prefix (`second`: url of the backend that owns the keys "b:..."; odd key
    # numbers live there): multi-key commands whose keys interleave the backends are split per backend by the facade and
    # have to come back position by position.  The model is unchanged - one ideal map; the harness only names the keys.
    "facade2": dict(facade=True, purge=0, url="vmem://?size={size}&check_interval=0", second="vmem://?size={size}&check_interval=0"),
    "facade2_mixed": dict(facade=True, purge=0, url="vmem://?size={size}&check_interval=0",
                          second="vmem://?size={size}&check_interval=0&secret=s3cr3t&digestmod=sha1"),
    # ticks of 2**-20 s (see "Clock resolution" above); purge interval 1/1024 s = 1024 ticks
    "raw_fine": dict(facade=False, purge=0, url=None, res=FINE),
    "raw_purge_fine": dict(facade=False, purge=1024, url=None, res=FINE),
    "facade_fine": dict(facade=True, purge=0, url="vmem://?size={size}&check_interval=0", res=FINE),
    "facade_secret_fine": dict(facade=True, purge=0, url="vmem://?size={size}&check_interval=0&secret=s3cr3t&digestmod=sha1", res=FINE),
}


def res_of(cfg: str) -> int:
    return CONFIGS[cfg].get("res", 8)


# ------------------------------------------------------------------------------------------------
# the observed store

_ACTIVE: "Runner | None" = None      # the runner whose backend is being observed (one at a time)


class LoggedStore(OrderedDict):
    """An `OrderedDict` that tells the active runner about every mutation, after it happened.  Reads are not
    reported.  (CPython's C implementation routes some mutators of a *subclass* through others - `pop` through
    `__delitem__`, the constructor through `__setitem__` - hence the re-entrancy counter.)"""

    _quiet = 0

    def __init__(self, *args, **kwargs):
        self._quiet = 1
        try:
            super().__init__(*args, **kwargs)
        finally:
            self._quiet = 0

    def _note(self, op, key):
        if not self._quiet and _ACTIVE is not None:
            _ACTIVE._mutation(op, key, self)

    def _do(self, op, key, fn, *args):
        self._quiet += 1
        try:
            r = fn(*args)
        finally:
            self._quiet -= 1
        self._note(op, key)
        return r

    def __setitem__(self, key, value):
        return self._do("set", key, super().__setitem__, key, value)

    def __delitem__(self, key):
        return self._do("del", key, super().__delitem__, key)

    def pop(self, key, *default):
        if key not in self:
            return super().pop(key, *default)
        return self._do("del", key, super().pop, key)

    def popitem(self, last=True):
        self._quiet += 1
        try:
            k, v = super().popitem(last)
        finally:
            self._quiet -= 1
        self._note("del", k)
        return k, v

    def move_to_end(self, key, last=True):
        return self._do("move", key, super().move_to_end, key, last)

    def clear(self):
        return self._do("clear", None, super().clear)

    def update(self, *args, **kwargs):
        for k, v in OrderedDict(*args, **kwargs).items():
            self[k] = v

    def setdefault(self, key, default=None):
        if key not in self:
            self[key] = default
        return self[key]

    def __ior__(self, other):
        self.update(other)
        return self


_instr: dict = {}


def observed_memory():
    """`Memory` with an observed `store` attribute (every re-binding, e.g. by `clear()`, is wrapped and reported
    too); registered once as the cashews backend alias `vmem://`."""
    if "cls" not in _instr:
        from cashews.backends.memory import Memory
        from cashews.wrapper.backend_settings import register_backend

        class ObservedMemory(Memory):
            @property
            def store(self):
                return self.__dict__["_observed_store"]

            @store.setter
            def store(self, value):
                first = "_observed_store" not in self.__dict__
                if not isinstance(value, LoggedStore):
                    value = LoggedStore(value)
                self.__dict__["_observed_store"] = value
                if not first and _ACTIVE is not None:
                    _ACTIVE._mutation("rebind", None, value)

        register_backend("vmem", ObservedMemory)
        _instr["cls"] = ObservedMemory
    return _instr["cls"]


class Runner:
    """Executes one history on the real code and returns the *effective* model lines with the
    implementation's canonical outputs (what the purge task really did is spliced in as `purge` lines)."""

    snapshot = None     # subclasses: store -> canonical content; taken after every background mutation

    def __init__(self, cfg: str, size: int):
        self.cfg = CONFIGS[cfg]
        self.res = self.cfg.get("res", 8)       # ticks per second
        self.size = size
        self.stats: dict[str, int] = {}
        self.backend = None
        self.second = None                  # the backend behind the prefix "b:" (two-backend configurations)
        self.main_task = None
        self.recs: list[dict] = []
        self.bg: list[dict] = []            # background activity not yet spliced in: groups {t, ops, snap}
        self._sweep_idx = None              # index in `recs` of the latest `purge` line ...
        self._sweep_t = None                # ... its instant ...
        self._cmd_since_sweep = True        # ... and whether an application command ran since
        self._cmd_t = None                  # instant of the latest application command
        self._long: dict = {}               # key -> (deadline, instant of the write) for TTLs of an hour or more

    def _bump(self, k: str):
        self.stats[k] = self.stats.get(k, 0) + 1

    def _ttl(self, tok: str):
        """the TTL argument of a command; bumps the spelling statistics (keys `spelling:*`, not interesting states)"""
        if tok != "-" and self.res != 8:
            t = int(tok.partition("/")[0]) / self.res
            if t and t * 1000 != int(t * 1000):
                self._bump("write_with_a_ttl_that_is_not_a_whole_number_of_milliseconds")
            if t and t * 1000000 != int(t * 1000000):
                self._bump("write_with_a_ttl_that_is_not_a_whole_number_of_microseconds")
        if not self.cfg["facade"]:
            return ttl_of(_FORM.sub("", tok), self.res)       # a bare backend takes numbers only
        if "/" in tok:
            ticks, _, form = tok.partition("/")
            obj = ttl_of(tok, self.res)
            kind = type(obj).__name__ + ("_with_days" if isinstance(obj, timedelta) and obj.days else "")
            self._bump(f"spelling:{kind}")
            if int(ticks) >= 3600 * self.res:
                self._bump("spelling:an hour or more")
            return obj
        return ttl_of(tok, self.res)

    def _note_long(self, w: list[str]):
        """remember which keys hold a deadline an hour or more ahead right after a write (read off the store; only
        for the interesting-state counters)"""
        op = w[0]
        if op in ("set", "incr", "expire"):
            keys = [self._k(int(w[1]))]
        elif op == "setmany":
            keys = [self._k(int(kv.split("=")[0])) for kv in w[2:]]
        else:
            return
        for k in keys:
            ent = self._ent(k)
            if ent and ent[0] is not None and ent[0] - CLOCK.t >= 3600:
                if self._long.get(k, (None,))[0] != ent[0]:
                    self._long[k] = (ent[0], CLOCK.t)
            elif not (ent and ent[0] is not None and k in self._long and self._long[k][0] == ent[0]):
                self._long.pop(k, None)

    # ---- observation of the store ------------------------------------------------------------------
    def _mutation(self, op, key, store):
        if self.backend is None or asyncio.current_task() is self.main_task:
            return
        try:
            if store is not self.backend.store:
                return
        except KeyError:
            return
        g = self.bg[-1] if self.bg else None
        if g is None or g["t"] != CLOCK.t:
            g = {"t": CLOCK.t, "ops": [], "snap": None}
            self.bg.append(g)
        g["ops"].append((op, key))
        if self.snapshot is not None:
            g["snap"] = self.snapshot(store)

    def _take_groups(self) -> list[dict]:
        groups, self.bg = self.bg, []
        return groups

    async def _setup(self):
        global _ACTIVE
        from cashews import Cache

        cls = observed_memory()
        self.main_task = asyncio.current_task()
        if self.cfg["facade"]:
            cache = Cache()
            backend = cache.setup(self.cfg["url"].format(size=self.size))
            self.backend = backend
            if self.cfg.get("second"):
                self.second = cache.setup(self.cfg["second"].format(size=self.size), prefix=SECOND_PREFIX)
            _ACTIVE = self
            await cache.init()
            self.api = cache
        else:
            backend = cls(size=self.size, check_interval=self.cfg["purge"] / self.res)
            self.backend = backend
            _ACTIVE = self
            await backend.init()
            self.api = backend
        if self.cfg["purge"]:
            await asyncio.sleep(0)          # the purge task starts (its first tick finds an empty store)
            self._take_groups()

    def _k(self, i: int) -> str:
        """the key the application uses for model key `i`: with two backends the odd ones belong to the second"""
        return SECOND_PREFIX + kname(i) if self.second is not None and i % 2 else kname(i)

    def _ent(self, key: str):
        """the physical entry of a key, in the store of the backend that owns it"""
        b = self.second if self.second is not None and key.startswith(SECOND_PREFIX) else self.backend
        return b.store.get(key)

    def _expired_unpurged(self, key: str) -> bool:
        ent = self._ent(key)
        return bool(ent and ent[0] is not None and ent[0] <= CLOCK.t)

    def _at_deadline(self, key: str) -> bool:
        ent = self._ent(key)
        return bool(ent and ent[0] is not None and ent[0] == CLOCK.t)

    async def _exec(self, w: list[str]) -> str:
        api = self.api
        op = w[0]
        if op in ("set", "get", "exists", "incr", "delete", "expire", "getexpire"):
            k = self._k(int(w[1]))
            if self._expired_unpurged(k):
                self._bump(f"{op}{'_' + w[4] if op == 'set' else ''}_on_expired_unpurged")
            if self._at_deadline(k):
                self._bump(f"{op}_exactly_at_deadline")
            ent = self._ent(k)
            if ent and ent[0] is not None and 0 < ent[0] - CLOCK.t < 0.001:
                self._bump("command_within_the_last_millisecond_before_a_deadline")
            if k in self._long and self._expired_unpurged(k):
                self._bump("command_at_or_after_a_deadline_of_hours_or_days")
            elif k in self._long and self._ent(k) and CLOCK.t - self._long[k][1] >= 3600:
                self._bump("command_an_hour_or_more_into_a_long_ttl_before_its_deadline")
        if self.second is not None and op in ("getmany", "setmany", "delmany"):
            ids = [int(x.split("=")[0]) % 2 for x in (w[2:] if op == "setmany" else w[1:])]
            runs = sum(1 for a, b in zip(ids, ids[1:]) if a != b) + 1 if ids else 0
            if len(set(ids)) == 2:
                self._bump(f"{op}_over_both_backends")
            if runs > 2 or (runs == 2 and ids[0] == 1):
                # not already grouped the way the facade groups them (first backend's keys first)
                self._bump(f"{op}_with_keys_interleaving_the_backends")
        if op == "set":
            k, v, ttl, c = self._k(int(w[1])), val_of(w[2]), self._ttl(w[3]), {"a": None, "nx": False, "xx": True}[w[4]]
            r = await api.set(k, v, expire=ttl, exist=c)
            return "T" if r is True else "F" if r is False else f"?{r!r}"
        if op == "setmany":
            pairs = {}
            for kv in w[2:]:
                k, v = kv.split("=")
                pairs[self._k(int(k))] = val_of(v)
            r = await api.set_many(pairs, expire=self._ttl(w[1]))
            return "U" if r is None else f"?{r!r}"
        if op == "get":
            out = show_val(await api.get(self._k(int(w[1])), default=SENT))
            if out.startswith("t:") and int(out[2:]) >= CBASE:
                self._bump("get_returned_a_container_value")
            return "v=" + out
        if op == "getmany":
            r = await api.get_many(*[self._k(int(x)) for x in w[1:]], default=SENT)
            outs = [show_val(v) for v in r]
            if any(o.startswith("t:") and int(o[2:]) >= CBASE for o in outs):
                self._bump("getmany_returned_a_container_value")
            return "vs=" + ",".join(outs)
        if op == "exists":
            r = await api.exists(self._k(int(w[1])))
            return "T" if r is True else "F" if r is False else f"?{r!r}"
        if op == "incr":
            try:
                r = await api.incr(self._k(int(w[1])), int(w[2]), expire=self._ttl(w[3]))
            except (ValueError, TypeError):
                return "E"
            return f"n={r}" if type(r) is int else f"?{r!r}"
        if op == "delete":
            r = await api.delete(self._k(int(w[1])))
            return "T" if r is True else "F" if r is False else f"?{r!r}"
        if op == "delmany":
            r = await api.delete_many(*[self._k(int(x)) for x in w[1:]])
            return "U" if r is None else f"?{r!r}"
        if op == "expire":
            t = self._ttl(w[2])
            r = await api.expire(self._k(int(w[1])), t if t is not None else 0)
            return "U"
        if op == "getexpire":
            r = await api.get_expire(self._k(int(w[1])))
            return f"n={r}" if type(r) is int else f"?{r!r}"
        if op == "clear":
            await api.clear()
            return "U"
        raise ValueError(f"bad op {w}")

    # ---- effective history -------------------------------------------------------------------------
    async def _rec(self, line: str, out: str, snap=None, now=None):
        """append one effective line (`snap`/`now`: the store content / instant it stands for, when that is not
        the present one)"""
        self.recs.append({"line": line, "out": out})

    def _current_snap(self):
        return None if self.snapshot is None else self.snapshot(self.backend.store)

    def _merge_into_sweep(self, idx: int, snap):
        """more background activity at the instant of the sweep recorded at `idx`, no application command in
        between: it is part of that sweep"""

    async def _sweep(self, g: dict):
        await self._rec("purge", "U", snap=g["snap"], now=g["t"])
        self.recs[-1]["bg_ops"] = list(g.get("ops", ()))
        if self._sweep_t == g["t"]:
            # a second piece of purge activity at the same instant, application commands in between: the
            # sweep suspended part-way and the application got in
            self._bump("sweep_split_by_commands")
        self._sweep_idx, self._sweep_t, self._cmd_since_sweep = len(self.recs) - 1, g["t"], False
        self._bump("purge_sweeps_spliced")

    async def _advance(self, line: str, dt: int):
        if not self.cfg["purge"]:
            CLOCK.t += dt / self.res
            await self._rec(line, "U")
            return
        start = CLOCK.t
        last = self._current_snap()
        await asyncio.sleep(dt / self.res if dt > 0 else 0)
        cur = start
        for g in self._take_groups():
            if g["t"] == start and g["t"] == self._sweep_t and not self._cmd_since_sweep:
                self._merge_into_sweep(self._sweep_idx, g["snap"])
                self.recs[self._sweep_idx]["bg_ops"] += g["ops"]
                self._bump("sweep_continued_after_idle_yield")
                last = g["snap"]
                continue
            await self._rec(f"adv {round((g['t'] - cur) * self.res)}", "U", snap=last, now=g["t"])
            if g["t"] == self._cmd_t:
                self._bump("sweep_at_the_instant_of_a_command_after_it")
            await self._sweep(g)
            cur, last = g["t"], g["snap"]
        if self.snapshot is not None and self._current_snap() != last:
            # the store differs from what the observed mutations left: something changed it behind the
            # observation.  Still translated faithfully: an unattributed sweep at the end of the advance.
            self._bump("unattributed_store_change")
            await self._rec(f"adv {round((CLOCK.t - cur) * self.res)}", "U", snap=last, now=CLOCK.t)
            await self._sweep({"t": CLOCK.t, "snap": self._current_snap()})
            cur = CLOCK.t
        await self._rec(f"adv {round((CLOCK.t - cur) * self.res)}", "U")
        if round((CLOCK.t - start) * self.res) != dt:
            await self._rec("?clock", f"slept {dt} ticks but clock moved {(CLOCK.t - start) * self.res}")

    async def _history(self, ops: list[str]):
        global _ACTIVE
        await self._setup()
        try:
            for line in ops:
                w = line.split()
                if w[0] == "adv":
                    await self._advance(line, int(w[1]))
                    continue
                try:
                    out = await self._exec(w)
                except Exception as exc:  # an exception class the model does not know is itself a disagreement
                    out = f"X:{type(exc).__name__}"
                await self._rec(plain(line), out)
                self._note_long(w)
                if self._sweep_t == CLOCK.t:
                    self._bump("command_at_the_instant_of_a_sweep_after_it")
                self._cmd_since_sweep = True
                self._cmd_t = CLOCK.t
                for g in self._take_groups():
                    # background activity while a command was under way (Memory's commands never suspend)
                    self._bump("sweep_inside_command")
                    await self._sweep(g)
            if hasattr(self.api, "close"):
                await self.api.close()
        finally:
            _ACTIVE = None
        return self.recs

    async def run(self, ops: list[str]) -> list[tuple[str, str]]:
        return [(r["line"], r["out"]) for r in await self._history(ops)]

    async def present_keys(self, n: int) -> list[int]:
        """which of the keys 0..n-1 the store physically holds (raw, non-touching probe)"""
        return [i for i in range(n) if kname(i) in self.backend.store]


def execute(cfg: str, size: int, ops: list[str]):
    r = Runner(cfg, size)
    eff = vtime.run(r.run, ops)
    return eff, r.stats


# ------------------------------------------------------------------------------------------------
# generator

TTLS = ["-", "-", "0", "1", "4", "8", "8", "16", "80"]
ADVS = [0, 1, 4, 7, 8, 8, 9, 16, 40, 160]
VALS = ["i:-1", "i:0", "i:1", "i:2", "i:3", "t:0", "t:1", "t:2", "t:3", "n", "y:0", "y:1"]


# "phase-locked" alphabets for configurations with the purge task: every time advance is a multiple of the purge
# interval (8 ticks) or an idle yield, so the harness task always wakes at the very instant of a purge tick, before or
# after the purge task (timer order), and an `adv 0` lets the purge task take exactly one step: application commands
# land right before a sweep, right after it, and - should a sweep ever suspend part-way - in the middle of it.
PHASE_ADVS = [0, 0, 0, 8, 8, 8, 16]
PHASE_TTLS = ["-", "1", "4", "8", "8", "8", "16", "16"]


# long durations (an hour ... a week; some with a seconds part, some with a fraction of a second, one just under a
# day) and medium ones whose string spellings are composite ('1m30s'): for histories run through the facade with
# spelled TTLs.  The virtual clock makes advancing across such deadlines free (purge task off).
BIG_TTLS = [str(x) for x in (
    8 * 90, 8 * 600, HOUR, 2 * HOUR + 8 * 61, 12 * HOUR, DAY - 8, DAY, DAY, DAY + 8, DAY + 8 * 90, DAY + 8 * 330, DAY + 4,
    36 * HOUR, 2 * DAY, 2 * DAY, 2 * DAY + HOUR + 1, 3 * DAY, 7 * DAY, 30 * DAY + 8 * 5)]
SPELL_FORMS = ["i", "f", "td", "td", "td", "s", "s", "ss", "sn", "s4", "sU"]
CONTAINER_VALS = [f"c:{i}" for i in range(len(CONTAINERS))]

# alphabets of the `*_fine` configurations, in ticks of 2**-20 s: TTLs of one and two ticks (below a microsecond),
# around half a millisecond, a tick under / over 1, 2, 5, 10 ms (1 ms = 1048.576 ticks), 1/1024 s, 1/64 s (a whole
# number of microseconds: spellable as timedelta), a tick under / exactly / over a second, two seconds and a bit
FINE_TTLS = ["-", "0", "1", "2", "500", "1000", "1024", "1048", "1049", "1500", "2097", "2098", "3072", "5243", "10485", "10486",
             str(FINE // 64), str(FINE // 2), str(FINE - 1), str(FINE), str(FINE + 1), str(2 * FINE + 10486)]
FINE_ADVS = [0, 1, 1, 2, 500, 1000, 1023, 1024, 1048, 1049, 2000, 4096, FINE // 64, FINE // 2, FINE]


def gen_history(rng, nkeys: int, maxlen: int, weights: dict | None = None, advs=None, ttls=None,
                forms=None, bigttls=None, maxadv: int | None = None, vals=None, chase: bool | None = None,
                res: int = 8, manykeys: int = 4) -> list[str]:
    """`forms`: spell every TTL in one of these forms (facade configurations only); `bigttls`: extra alphabet of long
    TTLs - then half of the time advances aim at a pending deadline (8 ticks / 1 tick before, exactly at, 1 / 8 ticks
    after it; the generator keeps its own account of `now` and of the deadlines it asked for), never by more than
    `maxadv` ticks.  With all three left out the random stream is the one older replays were made from."""
    ADVS, TTLS, VALS = advs or globals()["ADVS"], ttls or globals()["TTLS"], vals or globals()["VALS"]
    chase = bool(bigttls) if chase is None else chase       # aim time advances at pending deadlines
    n = rng.randint(1, maxlen)
    ops = []
    k = lambda: str(rng.randrange(nkeys))
    now = 0
    deadlines: list[int] = []

    def ttl(numeric=False):
        # `numeric`: the facade's `incr(expire: float | None)` is not a TTL-typed parameter (it is handed to the backend
        # as it is, no `ttl_to_seconds`): numbers only
        tok = rng.choice(bigttls) if bigttls and rng.random() < 0.4 else rng.choice(TTLS)
        if tok != "-":
            if int(tok) > 0:
                deadlines.append(now + int(tok))
            if forms:
                ok = [f for f in forms if (int(tok) % res == 0 or f in FORMS_ANY) and (not numeric or f in ("i", "f"))] or ["f"]
                tok += "/" + rng.choice(ok)
        return tok

    def adv():
        nonlocal now
        dt = None
        if chase and rng.random() < 0.5:
            ahead = [d for d in deadlines if d > now and (maxadv is None or d - now <= maxadv)]
            if ahead:
                dt = rng.choice(ahead) + rng.choice([-8, -1, 0, 0, 1, 8] + ([-1000, -300, -40] if res != 8 else [])) - now
                if dt <= 0 or (maxadv is not None and dt > maxadv):
                    dt = None
        if dt is None:
            dt = rng.choice(ADVS)
        now += dt
        return dt

    table = [
        ("set", 18), ("setnx", 8), ("setxx", 6), ("setmany", 5), ("get", 12), ("getmany", 5), ("exists", 5),
        ("incr", 10), ("delete", 5), ("delmany", 2), ("expire", 6), ("getexpire", 8), ("clear", 1), ("adv", 22),
    ]
    if weights:
        table = [(a, weights.get(a, b)) for a, b in table]
    names, ws = zip(*table)
    for _ in range(n):
        op = rng.choices(names, ws)[0]
        if op == "set":
            ops.append(f"set {k()} {rng.choice(VALS)} {ttl()} a")
        elif op == "setnx":
            ops.append(f"set {k()} {rng.choice(VALS)} {ttl()} nx")
        elif op == "setxx":
            ops.append(f"set {k()} {rng.choice(VALS)} {ttl()} xx")
        elif op == "setmany":
            ks = rng.sample(range(nkeys), rng.randint(1, min(3, nkeys)))
            ops.append(f"setmany {ttl()} " + " ".join(f"{x}={rng.choice(VALS)}" for x in ks))
        elif op == "get":
            ops.append(f"get {k()}")
        elif op == "getmany":
            ops.append("getmany " + " ".join(k() for _ in range(rng.randint(1, manykeys))))
        elif op == "exists":
            ops.append(f"exists {k()}")
        elif op == "incr":
            ops.append(f"incr {k()} {rng.choice([1, 1, 1, 2, -1])} {ttl(numeric=True)}")
        elif op == "delete":
            ops.append(f"delete {k()}")
        elif op == "delmany":
            ops.append("delmany " + " ".join(k() for _ in range(rng.randint(1, 3))))
        elif op == "expire":
            ops.append(f"expire {k()} {ttl()}")
        elif op == "getexpire":
            ops.append(f"getexpire {k()}")
        elif op == "clear":
            ops.append("clear")
        else:
            ops.append(f"adv {adv()}")
    return ops
