"""C18: complete enumeration of one (index, width) block of `Bitarray.incr` inputs.

Deliberately free of any other harness import: the thorough tier runs several of these as plain child processes
(`python -m harness.c18_blocks i,w,bymax,abits ...`) - `multiprocessing` cannot be used in the main harness process
because its polling loops rely on `time.monotonic`, which harness/vtime.py freezes.
"""
from __future__ import annotations

import json
import subprocess
import sys
from pathlib import Path

LEAN = Path(__file__).resolve().parent.parent / "lean"


def ask(lines: list[str]) -> list[str]:
    exe = LEAN / ".lake" / "build" / "bin" / "driver_c18"
    data = "\n".join(lines) + "\n"
    if exe.exists():
        p = subprocess.run([str(exe)], input=data, capture_output=True, text=True)
    else:
        p = subprocess.run(["lake", "env", "lean", "--run", "Drivers/C18.lean"], cwd=LEAN, input=data, capture_output=True, text=True)
    out = p.stdout.splitlines()
    if p.returncode != 0 or len(out) != len(lines):
        raise RuntimeError(f"model driver failed: rc={p.returncode}, {len(out)} answers for {len(lines)} requests: {p.stderr[-300:]}")
    return out


def exhaustive_block(i: int, w: int, bymax: int, abits: int):
    """all (by in [-bymax, bymax], a < 2^abits) for one (index, width): every case is run on the real Bitarray,
    compared with the closed-form counter arithmetic (the property) and with the Lean model.
    Returns (evaluations, non-trivial count, first failing case or None)."""
    from cashews.utils._bitarray import Bitarray as B

    mask = (1 << w) - 1
    sh = i * w
    lines, impl = [], []
    nontrivial = 0
    bad = None
    for by in range(-bymax, bymax + 1):
        for a in range(1 << abits):
            try:
                b = B(str(a))
                b.incr(i, w, by)
                got = f"a={b.to_int()} v={b.get(i, w)}"
            except Exception as e:  # noqa: BLE001
                got = "E:" + type(e).__name__
            old = (a >> sh) & mask
            raw = old + by
            newv = 0 if raw < 0 else mask if raw > mask else raw
            if got != f"a={a + ((newv - old) << sh)} v={newv}" and bad is None:
                bad = {"kind": "incr1", "op": "incr", "a": a, "i": i, "w": w, "by": by}
            if raw < 0 or raw > mask or (a & ~(mask << sh) and w & (w - 1)):
                nontrivial += 1
            lines.append(f"incr {a} {i} {w} {by}")
            impl.append(got)
    answers = ask(lines)
    if bad is None:
        for line, got, ans in zip(lines, impl, answers):
            if got != ans:
                _, a, _, _, by = line.split()
                bad = {"kind": "incr1", "op": "incr", "a": int(a), "i": i, "w": w, "by": int(by)}
                break
    return len(lines), nontrivial, bad


if __name__ == "__main__":
    print(json.dumps([exhaustive_block(*map(int, arg.split(","))) for arg in sys.argv[1:]]))
