"""Call histories on the real early / soft / failover / hit decorators (C14): executor, generator, spec oracle.

A case is {"cfg": {...}, "ops": [...]}:
  cfg  = decor ∈ early|soft|fail|hit, ttl / inner (early_ttl or soft_ttl) in ticks of 1/8 s, hits (cache_hits),
         upd (update_after), bg (background) 0|1, store ∈ plain|purge|pickle (how `mem://` is set up),
         mode ∈ default|script (optional, default "default"): with "script" the decorator gets a user `condition`
         (scripted_condition), failover/soft get a callable `ttl` (evaluated with the result), and the cache gets a
         middleware that can refuse a SET — the three ways the STORE STEP that follows a successful execution can fail
  ops  = "call <arg> <outcome> [<dur>]"  one call of the decorated function with argument <arg> (a|b); the outcome is what
                                    the wrapped function (and the store step after it) does IF this call executes it in
                                    the foreground, and <dur> (ticks, default 0) is how long the function body then takes:
                                    it sleeps <dur> ticks on the virtual loop before it returns / raises
         "adv <ticks>"              virtual time passes
         "done <arg> <i> <outcome>" the i-th oldest background refresh in flight for <arg> completes with that outcome
  outcome = ok | lis | unl          the function returns (and its result is stored) | raises a listed | an unlisted exception
          | same                    like ok, but the function returns a result EQUAL to the one its latest successful execution for
                                    this argument returned (a healthy function mostly returns what it returned before); for the model
                                    every successful execution is a store event of its own (`ok`), and a served payload is
                                    canonicalised to the token (completion tick, ordinal) of the latest execution that returned it
          | rej                     (mode script) the function returns a result that the condition turns down (returns False)
          | cL cU | tL tU | sL sU   (mode script) the function returns a result on which the condition raises | the callable
                                    ttl raises (failover / soft only: early evaluates a callable ttl before executing and
                                    without the result, hit cannot be given one) | backend.set is refused by the middleware —
                                    with a Listed (L) / Unlisted (U) exception

The wrapped function returns (completion tick, execution ordinal for that argument): served age is read off the value
and judged at the instant the call RETURNS (`t_end` of the call event; `t` is the instant it began).
A background refresh (a task other than the harness's own) parks on a future until its `done` op, so that
"the refresh finishes after the next call(s)" is an ordinary history.  A foreground execution takes the scripted
duration of its call: everything the decorator does before `await func(...)` happens at `t`, everything after at `t_end`.
Different arguments use different cache keys: the model is run once per argument on the projection of the history.
"""
from __future__ import annotations

import asyncio
import copyreg
import datetime as _dt

from . import vtime
from .core import HarnessError
from .vtime import CLOCK


def _mk_dt(*fields):
    return vtime._RealDatetime(*fields, tzinfo=_dt.timezone.utc)


# harness/vtime.py replaces `datetime.datetime` by a subclass, after which the plain instances that `datetime.now`
# returns cannot be pickled by reference ("not the same object as datetime.datetime"); the `pickle` store set-up
# needs them to round-trip, so they are reduced to their fields (all instants here are UTC and exact).
copyreg.pickle(vtime._RealDatetime, lambda d: (_mk_dt, (d.year, d.month, d.day, d.hour, d.minute, d.second, d.microsecond)))


class Pay(tuple):
    """what a successful execution returns: compares (and hashes) like the plain tuple (completion tick, ordinal) - results of
    outcome `same` are EQUAL to the earlier one - but remembers which execution produced it (`serial`), so that the harness
    can always name the store event a served value comes from"""
    serial = None

    def __reduce__(self):
        return (_mk_pay, (tuple(self), self.serial))


def _mk_pay(fields, serial):
    p = Pay(fields)
    p.serial = serial
    return p


class Listed(Exception):
    pass


class Unlisted(Exception):
    pass


class StoreListed(Listed):
    """raised by the store step (condition / callable ttl / SET middleware); is one of the decorator's `exceptions`"""


class StoreUnlisted(Unlisted):
    """raised by the store step; is not one of the decorator's `exceptions`"""


RETURNS = ("ok", "rej", "cL", "cU", "tL", "tU", "sL", "sU")      # the function itself returns
STORE_FAILS = ("cL", "cU", "tL", "tU", "sL", "sU")                # ... and the store step raises
MODEL_OUTCOME = {"same": "ok", "ok": "ok", "lis": "lis", "unl": "unl", "rej": "rej", "cL": "preL", "cU": "preU", "tL": "preL",
                 "tU": "preU", "sL": "setL", "sU": "setU"}


def _flag_of(value):
    """the script's instruction carried by a result token `(tick, ordinal, flag)`, also when it sits in the
    `[deadline, result]` pair that early / soft store"""
    if isinstance(value, list) and len(value) == 2:
        value = value[1]
    if isinstance(value, tuple) and len(value) == 3 and isinstance(value[2], str):
        return value[2]
    return None


def _store_exc(flag):
    return (StoreListed if flag[1] == "L" else StoreUnlisted)("store step: " + flag)


def scripted_condition(result, args, kwargs, key=None):
    """a user `condition`: turns down the results flagged `rej`, chokes on the results flagged `cL` / `cU`, stores the
    rest (early / hit also show it the exception of a failed execution: like the default it says True, nothing is stored)"""
    flag = _flag_of(result)
    if flag == "rej":
        return False
    if flag in ("cL", "cU"):
        raise _store_exc(flag)
    return True


def scripted_ttl(seconds):
    """a callable `ttl` (failover / soft evaluate it with the result when they store): chokes on results flagged `tL` / `tU`"""
    def ttl(arg, result=None):
        flag = _flag_of(result)
        if flag in ("tL", "tU"):
            raise _store_exc(flag)
        return seconds
    return ttl


async def set_guard(call, cmd, backend, *args, **kwargs):
    """a user middleware refusing the SET of the values flagged `sL` / `sU`"""
    from cashews.commands import Command
    if cmd == Command.SET:
        flag = _flag_of(kwargs.get("value", args[1] if len(args) > 1 else None))
        if flag in ("sL", "sU"):
            raise _store_exc(flag)
    return await call(*args, **kwargs)


STORES = {
    "plain": "mem://?check_interval=0",
    "purge": "mem://?check_interval=1",
    "pickle": "mem://?check_interval=0&pickle_type=default",
}
ARGS = ["a", "b"]


def case_line(cfg) -> str:
    return "case %s ttl=%d inner=%d hits=%d upd=%d bg=%d" % (
        cfg["decor"], cfg["ttl"], cfg["inner"], cfg["hits"], cfg["upd"], cfg["bg"])


def wrap(cache, cfg, f):
    d = cfg["decor"]
    ttl, inner = cfg["ttl"] / 8, cfg["inner"] / 8
    extra = {}
    if cfg.get("mode", "default") == "script":
        extra["condition"] = scripted_condition
        if d in ("soft", "fail"):
            ttl = scripted_ttl(ttl)
    if d == "early":
        return cache.early(ttl=ttl, early_ttl=inner, background=bool(cfg["bg"]), protected=False, **extra)(f)
    if d in ("soft", "fail"):
        # the application's customised defaults name the UNLISTED class: a decorator's explicit `exceptions=` replaces the
        # defaults, it is not added to them (round 7, C14-19) - with the defaults merged in, an unlisted failure is served
        cache.set_default_fail_exceptions(Unlisted)
    if d == "soft":
        return cache.soft(ttl=ttl, soft_ttl=inner, exceptions=(Listed,), protected=False, **extra)(f)
    if d == "fail":
        return cache.failover(ttl=ttl, exceptions=(Listed,), **extra)(f)
    if d == "hit":
        # cttl: the ttl is given as a CALLABLE that returns the same number (D71: resolved before it reaches the backend)
        seconds = ttl
        if cfg.get("cttl") == 1:
            ttl = lambda arg: seconds                       # noqa: E731  (called with the call's arguments)
        elif cfg.get("cttl") == 2:
            ttl = lambda arg, result=None: seconds          # noqa: E731  (... and, where there is one, the result)
        if cfg.get("via") == "dynamic":
            if (cfg["hits"], cfg["upd"], cfg["bg"]) != (3, 1, 1):
                raise HarnessError("via=dynamic is hit(cache_hits=3, update_after=1, background=True)")
            return cache.dynamic(ttl=ttl, **extra)(f)
        return cache.hit(ttl=ttl, cache_hits=cfg["hits"], update_after=cfg["upd"], background=bool(cfg["bg"]), **extra)(f)
    raise HarnessError(f"unknown decorator {d}")


class _Ctx:
    """state of the wrapped function for the case being executed"""

    def __init__(self, cfg, loop, main_task):
        self.cfg = cfg
        self.loop = loop
        self.main_task = main_task
        self.nexec = {a: 0 for a in ARGS}
        self.gates = {a: [] for a in ARGS}        # in flight: (id, future, start tick)
        self.execs = []                           # every execution: dict(arg,id,start,end,outcome,bg)
        self.cur = {"outcome": "ok", "dur": 0}
        self.callers = set()                      # the tasks in which the harness makes its calls
        self.finished = []                        # the executions in the order in which they completed
        self.lastpayload = {}                     # arg -> what its latest successful (ok / same) execution returned


_CTX: _Ctx | None = None


async def wrapped_function(arg):
    """THE decorated function (one module-level object for all cases: cashews caches key templates and signatures per
    function object).  Consults the script: the outcome of a foreground execution is the current call's, a background
    execution (a task other than the harness's callers', only when background=True) parks until its `done` operation."""
    ctx = _CTX
    n = ctx.nexec[arg]
    ctx.nexec[arg] += 1
    rec = {"arg": arg, "id": n, "start": CLOCK.ticks(), "end": None, "outcome": None, "bg": False, "dur": 0, "payload": None}
    ctx.execs.append(rec)
    out = ctx.cur["outcome"]
    if asyncio.current_task() not in ctx.callers and ctx.cfg["bg"] and ctx.cfg["decor"] in ("early", "hit"):
        rec["bg"] = True
        fut = ctx.loop.create_future()
        ctx.gates[arg].append((n, fut, rec["start"]))
        out = await fut
    elif ctx.cur["dur"]:
        # the body takes time: it sleeps on the virtual loop (timers that fall due meanwhile - the purge task - run)
        rec["dur"] = ctx.cur["dur"]
        await vtime.vsleep(rec["dur"])
        if CLOCK.ticks() != rec["start"] + rec["dur"]:
            raise HarnessError(f"a body of {rec['dur']} ticks started at {rec['start']} ended at {CLOCK.ticks()}")
    rec["end"] = CLOCK.ticks()
    rec["outcome"] = "ok" if out == "same" else out
    ctx.finished.append(rec)
    if out == "same" and ctx.lastpayload.get(arg) is not None:
        rec["payload"] = ctx.lastpayload[arg]
        return _mk_pay(rec["payload"], n)
    if out in ("ok", "same"):
        rec["payload"] = ctx.lastpayload[arg] = (rec["end"], n)
        return _mk_pay(rec["payload"], n)
    if out in RETURNS:
        if ctx.cfg.get("mode", "default") != "script":
            raise HarnessError(f"outcome {out} needs cfg mode=script")
        rec["payload"] = (rec["end"], n)
        return (rec["end"], n, out)          # the store step reads the flag off the result
    if out not in ("lis", "unl"):
        raise HarnessError(f"bad outcome {out!r}")
    raise (Listed if out == "lis" else Unlisted)(out)


async def _quiesce():
    loop = asyncio.get_running_loop()
    for _ in range(10000):
        await asyncio.sleep(0)
        if not loop._ready:
            return
    raise HarnessError("loop never became quiescent")


STEP_BUDGET = 2_000_000      # iterations of the virtual loop per case (a case of 30 ops needs a few thousand)


def _guard(loop):
    """a wait that cannot end must not hang the check: every iteration of the virtual loop is counted against a budget, and
    an iteration that would block for ever (nothing ready, no timer pending: whoever is awaited will never be woken) raises"""
    inner = loop._run_once
    state = {"steps": 0}

    def run_once():
        state["steps"] += 1
        if state["steps"] > STEP_BUDGET:
            raise HarnessError(f"virtual loop: more than {STEP_BUDGET} iterations in one case (a wait that never ends?)")
        if not loop._ready and not loop._scheduled and not loop._stopping:
            raise HarnessError("virtual loop: nothing ready and no timer pending — the harness is waiting for something that "
                               "can never happen (deadlock)")
        inner()
    loop._run_once = run_once


def _shown(outcome, arg, ran, finished=()):
    """canonical form of what a call returned / raised; `ran`: the executions that completed while it was answered.
    A returned payload is named after the execution it comes from: one that completed while the call was answered (fresh),
    else the LATEST earlier execution that returned an equal payload (outcome `same` repeats payloads)"""
    kind = outcome[0]
    if kind == "val" and len(outcome) > 3 and outcome[3] is not None:
        # the payload says which execution produced it
        for e in finished:
            if e["arg"] == arg and e["id"] == outcome[3]:
                return ("fresh" if any(e is r for r in ran) else "stored") + f":{e['end']}:{e['id']}"
    if kind == "val":
        pay = (outcome[1], outcome[2])
        for e in reversed(ran):
            if e["arg"] == arg and e["payload"] == pay:
                return f"fresh:{e['end']}:{e['id']}"
        for e in reversed(finished):
            if e["arg"] == arg and e["payload"] == pay:
                return f"stored:{e['end']}:{e['id']}"
        return f"stored:{outcome[1]}:{outcome[2]}"
    if kind in ("raised", "storeerr"):
        return kind + ":" + outcome[1]
    return "other:" + outcome[1]


async def _caller(g, arg):
    """one call of the decorated function, run as a task of its own: the answer, canonicalised"""
    try:
        r = await g(arg)
        if isinstance(r, tuple) and len(r) in (2, 3) and all(isinstance(x, int) for x in r[:2]):
            return ("val", r[0], r[1], getattr(r, "serial", None))
        return ("other", repr(r))
    except StoreListed:
        return ("storeerr", "lis")
    except StoreUnlisted:
        return ("storeerr", "unl")
    except Listed:
        return ("raised", "lis")
    except Unlisted:
        return ("raised", "unl")
    except asyncio.CancelledError:
        raise
    except Exception as exc:  # noqa: BLE001
        return ("other", type(exc).__name__)


async def _execute(cfg, ops):
    from cashews import Cache

    loop = asyncio.get_running_loop()
    loop.SPIN = 10 ** 12                      # no spontaneous ticks: this coroutine never blocks
    loop.set_exception_handler(lambda l, ctx: None)   # a failing background refresh is never awaited by cashews
    _guard(loop)
    cache = Cache()
    if cfg.get("mode", "default") == "script":
        cache.setup(STORES[cfg["store"]], middlewares=(set_guard,))
    else:
        cache.setup(STORES[cfg["store"]])
    await cache.init()
    ctx = _Ctx(cfg, loop, asyncio.current_task())
    global _CTX
    _CTX = ctx
    nexec, gates, execs, cur = ctx.nexec, ctx.gates, ctx.execs, ctx.cur
    f = wrapped_function
    g = wrap(cache, cfg, f)
    events = []
    parked = {a: [] for a in ARGS}            # callers waiting for a recalculation of their key: (op index, task)
    for opi, line in enumerate(ops):
        w = line.split()
        t = CLOCK.ticks()
        if w[0] == "call":
            arg, o, dur = parse_call(line)
            cur["outcome"] = o
            cur["dur"] = dur
            done_before = len(ctx.finished)
            started_before = len(execs)
            infl_before = [(i, s) for i, _, s in gates[arg]]
            task = loop.create_task(_caller(g, arg))
            ctx.callers.add(task)
            await _quiesce()
            if not task.done():
                body = [e for e in execs[started_before:] if not e["bg"] and e["end"] is None]
                if body:
                    # the function body of this call is asleep on the virtual loop: let exactly its duration pass
                    await asyncio.wait({task}, timeout=(body[0]["dur"] + 1) * vtime.TICK)
                    if not task.done():
                        raise HarnessError(f"`{line}` at {t}: the call did not return when its function body of "
                                           f"{body[0]['dur']} ticks had finished")
                    await _quiesce()
            if not task.done():
                # the call executes nothing and cannot return: it waits for something this history has yet to do - the
                # completion of a recalculation in flight for its key (early after D44: a cold miss joins it)
                if execs[started_before:] or not gates[arg]:
                    raise HarnessError(f"`{line}` at {t}: the call neither returned nor is there a recalculation in flight for "
                                       f"`{arg}` it could be waiting for (executions started by it: {len(execs[started_before:])})")
                if CLOCK.ticks() != t:
                    raise HarnessError("virtual time moved while a call was being parked")
                parked[arg].append((opi, task))
                rid = gates[arg][0][0]
                events.append({"op": line, "kind": "call", "arg": arg, "t": t, "t_end": t, "dur": dur,
                               "outcome": "ok" if o == "same" else o, "same": o == "same",
                               "res": f"joined:{rid}", "x": 0, "b": 0, "n": len(gates[arg]), "infl_before": infl_before,
                               "started_id": None, "ran": [], "late": [], "joined": rid,
                               "impl": f"joined:{rid} x=0 b=0 n={len(gates[arg])} t={t}"})
                continue
            res = task.result()
            ran = ctx.finished[done_before:]
            late = []
            t_end = CLOCK.ticks()
            if t_end != t + sum(e["dur"] for e in ran):
                raise HarnessError(f"virtual time moved during a call by something else than its function body: {t} -> {t_end}")
            new = execs[started_before:]
            shown = _shown(res, arg, ran, ctx.finished)
            x = len(ran)
            b = sum(1 for e in new if e["bg"] and e["end"] is None)
            events.append({"op": line, "kind": "call", "arg": arg, "t": t, "t_end": t_end, "dur": dur,
                           "outcome": "ok" if o == "same" else o, "same": o == "same",
                           "res": shown, "x": x, "b": b,
                           "n": len(gates[arg]), "infl_before": infl_before,
                           "started_id": gates[arg][-1][0] if b else None,
                           "ran": [(e["id"], e["end"], e["outcome"], e["start"]) for e in ran if e["arg"] == arg],
                           "late": [(e["id"], e["end"], e["outcome"], e["start"]) for e in late if e["arg"] == arg],
                           "impl": f"{shown} x={x} b={b} n={len(gates[arg])} t={t_end}"})
        elif w[0] == "adv":
            CLOCK.advance(int(w[1]))
            await _quiesce()
            if CLOCK.ticks() != t + int(w[1]):
                raise HarnessError("virtual time moved on its own")
            events.append({"op": line, "kind": "adv", "t": t, "dt": int(w[1]), "impl": "ok"})
        elif w[0] == "done":
            arg, i, o = w[1], int(w[2]), w[3]
            wtag = " w=-" if cfg["decor"] == "early" else ""
            if i < len(gates[arg]):
                n, fut, start = gates[arg].pop(i)
                done_before = len(ctx.finished)
                fut.set_result(o)
                await _quiesce()
                ran = ctx.finished[done_before:]
                shown = "stored" if o in ("ok", "same") else ("skipped" if o == "rej" else "failed")
                if o == "same":
                    o = "ok"
                # the callers parked on this recalculation are answered now
                waiters = []
                still = []
                for wop, wtask in parked[arg]:
                    if wtask.done():
                        waiters.append((wop, _shown(wtask.result(), arg, ran, ctx.finished)))
                    else:
                        still.append((wop, wtask))
                parked[arg] = still
                if still and not gates[arg]:
                    raise HarnessError(f"`{line}`: {len(still)} caller(s) of `{arg}` still parked although no recalculation of it is in flight")
                if waiters:
                    kinds = sorted({r for _, r in waiters})
                    wtag = " w=" + (kinds[0] if len(kinds) == 1 else "mixed(" + ",".join(kinds) + ")")
                events.append({"op": line, "kind": "done", "arg": arg, "t": t, "id": n, "start": start, "outcome": o, "same": w[3] == "same",
                               "res": shown, "n": len(gates[arg]), "waiters": waiters,
                               "impl": f"{shown} n={len(gates[arg])} t={CLOCK.ticks()}{wtag}"})
            else:
                events.append({"op": line, "kind": "done", "arg": arg, "t": t, "id": None, "outcome": "ok" if o == "same" else o, "res": "noop",
                               "n": len(gates[arg]), "waiters": [], "impl": f"noop n={len(gates[arg])} t={CLOCK.ticks()}{wtag}"})
        elif w[0] in ("set", "del") and len(w) == 2:
            # capacity stage (harness/overlap14.py): unrelated keys written / deleted straight through the cache
            if w[0] == "set":
                await cache.set("filler:" + w[1], 1)
            else:
                await cache.delete("filler:" + w[1])
            await _quiesce()
            events.append({"op": line, "kind": "raw", "t": t, "impl": "ok"})
        else:
            raise HarnessError(f"bad op {line!r}")
    # drain what is still in flight (not part of the history) so that the loop closes cleanly
    for arg in ARGS:
        for _, fut, _ in gates[arg]:
            if not fut.done():
                fut.set_result("unl")
    await _quiesce()
    for arg in ARGS:
        for wop, wtask in parked[arg]:
            if not wtask.done():
                raise HarnessError(f"op {wop} `{ops[wop]}`: the parked caller did not return when everything in flight was completed")
            wtask.result()
    await cache.close()
    return events


def parse_call(line):
    """`call <arg> <outcome> [<dur>]` -> (arg, outcome, dur)"""
    w = line.split()
    if len(w) not in (3, 4) or w[0] != "call" or (len(w) == 4 and not w[3].isdigit()):
        raise HarnessError(f"bad call op {line!r}")
    return w[1], w[2], int(w[3]) if len(w) == 4 else 0


def execute(cfg, ops):
    """run one case on the real code; returns the list of observed events (one per op)"""
    return vtime.run(_execute, cfg, ops)


def project(ops, events, arg):
    """the history as seen by one argument's cache key: its own calls / completions, and all time advances — also the
    time that passed while ANOTHER argument's call was running its function body (observed: `t_end - t` of that call's
    event; that call's own block checks the same elapsed time against the model).
    Returns (model lines, indexes into ops; None for such a synthetic advance)"""
    lines, idx = [], []
    for i, line in enumerate(ops):
        w = line.split()
        if w[0] == "adv":
            lines.append(line)
            idx.append(i)
        elif w[1] == arg:
            if w[0] == "call":
                _, o, dur = parse_call(line)
                head, tail = ["call"], ([str(dur)] if dur else [])
            else:
                o, head, tail = w[-1], [w[0]] + w[2:-1], []
            if o not in MODEL_OUTCOME:
                raise HarnessError(f"bad outcome in {line!r}")
            lines.append(" ".join(head + [MODEL_OUTCOME[o]] + tail))
            idx.append(i)
        elif w[0] == "call" and events is not None:
            elapsed = events[i]["t_end"] - events[i]["t"]
            if elapsed:
                lines.append(f"adv {elapsed}")
                idx.append(None)
    return lines, idx


def model_block(cfg, ops, events=None):
    """driver request lines for a whole case: one block per argument that occurs"""
    blocks = []
    for arg in ARGS:
        if any(l.split()[0] != "adv" and l.split()[1] == arg for l in ops):
            lines, idx = project(ops, events, arg)
            blocks.append((arg, [case_line(cfg)] + lines, idx))
    return blocks


def impl_view(ev) -> str:
    return ev["impl"]


def model_view(ev, ans: str) -> str:
    """strip `model=`; for adv lines only the in-flight count of that argument is comparable, and the
    implementation's adv event is global, so adv answers are compared as 'ok'"""
    if not ans.startswith("model="):
        return "?" + ans
    a = ans[len("model="):]
    if ev["kind"] == "adv":
        return a.split(" ")[0]
    if ev["kind"] == "done" and not ev.get("waiters") and " w=" in a:
        # what callers parked on that recalculation would be handed: comparable only when there are any
        a = a[:a.index(" w=")] + " w=-"
    return a


# ------------------------------------------------------------------------------------------------------------------
# spec oracle: the sentences of the property, evaluated on what the implementation was observed to do
# ------------------------------------------------------------------------------------------------------------------

D19 = "D19-foreground-refresh-failure-propagates"
D71 = "D71:hit-callable-ttl-raises"
# D39 / D40 (found when the check learnt executions with a duration; repaired in /repo): soft fell back to the `cached` it
# had read BEFORE the function ran, early(background=False) returned the result it had read before the foreground refresh
# it awaited - after a slow execution a value stored more than ttl ago.  Their witnesses are corpus cases
# (corpus/C14/D39_*.json, D40_*.json) and the ordinary signatures below report them if they ever return.


def oracle(cfg, events):
    """returns (problems, interesting): problems = list of (event index, signature, text)"""
    d = cfg["decor"]
    ttl, inner, hits, upd, bg = cfg["ttl"], cfg["inner"], cfg["hits"], cfg["upd"], bool(cfg["bg"])
    problems = []
    seen = set()
    last = {}            # arg -> (stamp, id) of the latest successful completion = the stored result while younger than ttl
    timely = {}          # arg -> every refresh so far was younger than early_ttl at every call (early)
    run = {}             # arg -> serves since the function last began to execute (hit)
    run2 = {}            # arg -> same, a completed-and-stored background refresh also resets
    since = {}           # arg -> calls since the last store (hit)
    sequential = {}      # arg -> no call was made while a refresh was in flight (hit)
    lstart = {}          # arg -> instant at which the execution that produced `last` STARTED
    conf = {}            # arg -> instant at which a result equal to the latest one was FIRST stored (chains of outcome `same`)
    started = {}         # (arg, execution id) -> index of the call that started that background refresh
    prev_rej = {}        # arg -> the previous call for this argument returned a result the condition turned down
    reset_kept = {}      # arg -> hit: a refused SET deleted the counter while an older result stayed stored

    def bad(i, sig, text):
        problems.append((i, sig, text))

    for i, ev in enumerate(events):
        if ev["kind"] in ("adv", "raw"):
            continue
        arg = ev["arg"]
        t = ev["t"]
        if ev["kind"] == "done":
            for wop, wres in ev.get("waiters", []):
                # callers that found nothing stored and waited for this recalculation (early, D44) are answered now
                seen.add("joined_caller_answered_" + ("fresh" if wres.startswith("fresh") else "exception" if wres.split(":")[0] in ("raised", "storeerr") else "other"))
                wk = wres.split(":")[0]
                if wk in ("fresh", "stored"):
                    wstamp = int(wres.split(":")[1])
                    if not (0 <= t - wstamp <= ttl):
                        bad(i, "early-older-than-ttl", f"the caller parked at op {wop} was handed, at {t}, a result stored at {wstamp} (> ttl={ttl} ago)")
                elif wk == "other":
                    bad(i, "unexpected-result", f"the caller parked at op {wop} returned/raised something outside the alphabet: {wres}")
            if len(ev.get("waiters", [])) > 1:
                seen.add("several_callers_joined_one_recalculation")
            if ev["res"] != "noop" and ev["outcome"] in STORE_FAILS:
                seen.add("bg_refresh_store_step_failed")
            if ev["res"] == "skipped":
                seen.add("bg_refresh_result_rejected")
            if ev["res"] == "failed" and ev["outcome"] in ("sL", "sU") and d == "hit":
                # the refresh got as far as `gather(delete(counter), set(...))`: the counter is gone, the older result stays
                since[arg] = 0
                run2[arg] = 0
                if last.get(arg) and t - last[arg][0] < ttl:
                    reset_kept[arg] = True
            if ev["res"] == "stored":
                conf[arg] = conf.get(arg) if (ev.get("same") and last.get(arg)) else t
                last[arg] = (t, ev["id"])
                lstart[arg] = ev["start"]
                since[arg] = 0
                run2[arg] = 0
                reset_kept[arg] = False
                seen.add("bg_refresh_stored")
                j0 = started.get((arg, ev["id"]), i)
                if any(e2["kind"] == "call" and e2["arg"] == arg for e2 in events[j0 + 1:i]):
                    seen.add("refresh_finished_after_a_later_call")
                if t - ev["start"] >= max(inner, 1) and d == "early":
                    seen.add("refresh_outlived_its_lock")
            elif ev["res"] == "failed":
                seen.add("bg_refresh_failed")
            continue
        # ---- a call
        res, x, b, o = ev["res"], ev["x"], ev["b"], ev["outcome"]
        te, dur = ev["t_end"], ev["dur"]          # the instant the call returned; the scripted duration of its function body
        if b:
            started[(arg, ev["started_id"])] = i
        kind = res.split(":")[0]
        val = tuple(int(z) for z in res.split(":")[1:]) if kind in ("fresh", "stored") else None
        L = last.get(arg)
        age = t - L[0] if L else None             # age of the stored result when the call BEGAN
        age_end = te - L[0] if L else None        # ... and when it returned
        if te != t + (dur if x == 1 else 0):
            bad(i, "call-duration", f"the call began at {t} and returned at {te}: executed {x}, function body of {dur} ticks")
        if ev.get("same") and x == 1 and L:
            seen.add("execution_returned_a_result_equal_to_the_stored_one")
            if age < ttl:
                seen.add("equal_result_confirmed_while_the_first_one_is_still_stored")
        if conf.get(arg) is not None and L and kind == "stored" and val == L and te - conf[arg] >= ttl:
            seen.add("served_result_first_seen_more_than_ttl_ago_confirmed_since")
        if x == 1 and dur:
            seen.add("execution_took_time")
            if L and age < ttl <= age_end:
                seen.add("execution_straddles_ttl_of_stored_result")
            if L and inner and age < ttl and dur >= inner:
                seen.add("execution_longer_than_inner_ttl")
        if L and x == 0 and kind == "stored" and inner and age <= inner - (1 if d == "soft" else 0) < t - lstart.get(arg, L[0]):
            # young only because the inner deadline counts from the COMPLETION of the execution that produced the result
            seen.add("young_only_by_completion_stamp")
        if kind == "other" and cfg.get("cttl") and "TypeError" in res:
            bad(i, D71, f"hit / dynamic with a callable ttl: the call raised {res} (the raw callable reached the backend as an expiry)")
        elif kind == "other":
            bad(i, "unexpected-result", f"call returned/raised something outside the alphabet: {res}")
        # ---- the store step after a successful execution (all four strategies)
        own = x == 1 and o in RETURNS          # the function ran inside this call and returned
        if kind == "storeerr":
            want = "lis" if o[-1] == "L" else "unl"
            if not (x == 1 and o in STORE_FAILS and res == "storeerr:" + want):
                bad(i, "unexpected-result", f"the call raised a store-step exception ({res}) that the script did not raise "
                                            f"in this call (outcome {o}, executed {x})")
        if own and o in STORE_FAILS:
            seen.add("store_step_failed")
            seen.add({"c": "store_step_failed_in_condition", "t": "store_step_failed_in_callable_ttl",
                      "s": "store_step_failed_in_backend_set"}[o[0]])
            seen.add("store_step_raised_listed_exception" if o[1] == "L" else "store_step_raised_unlisted_exception")
            if L and age < ttl:
                seen.add("store_step_failed_while_older_result_stored")
                if o[1] == "L":
                    seen.add("store_step_raised_LISTED_while_older_result_stored")
        if own and o == "rej":
            seen.add("condition_rejected_result")
            if L and age < ttl:
                seen.add("condition_rejected_result_while_older_result_stored")
        if prev_rej.get(arg) and x == 1:
            seen.add("call_after_rejected_result_executes")
        prev_rej[arg] = own and o == "rej"
        if kind == "fresh" and (x != 1 or val[0] != te):
            bad(i, "fresh-not-fresh", f"a result reported as fresh was not produced by this call: {res}")
        if kind == "stored" and val != L:
            bad(i, "served-not-latest", f"served {val}, but the latest stored result is {L}")

        if d == "early":
            if val is not None and not (0 <= te - val[0] <= ttl):
                why = (f" — it was younger than ttl when the call began at {t}, but the call waited {dur} for its foreground refresh "
                       "and then handed out what it had read before it") if kind == "stored" and x == 1 and t - val[0] < ttl else ""
                bad(i, "early-older-than-ttl", f"call returning at {te} received a result stored at {val[0]} (> ttl={ttl} ago){why}")
            if L and age < inner and age < ttl and not (res == f"stored:{L[0]}:{L[1]}" and x == 0 and b == 0):
                bad(i, "early-young-not-served", f"stored result aged {age} < early_ttl={inner} but the call gave {res} x={x} b={b}")
            if L and age < ttl and res != f"stored:{L[0]}:{L[1]}":
                if (not bg) and kind == "fresh" and x == 1 and age >= inner:
                    # the caller waited for the foreground refresh it triggered and gets the refreshed result
                    seen.add("foreground_refresh_ok")
                    if dur >= max(inner, 1):
                        seen.add("foreground_refresh_outlived_its_lock")
                    if age_end >= ttl:
                        seen.add("foreground_refresh_straddles_ttl_fresh_result_served")
                elif (not bg) and kind in ("raised", "storeerr") and x == 1 and age >= inner:
                    bad(i, D19, f"background=False: the refresh raised and the call raised too instead of answering "
                               f"from the store (stored result aged {age}, early_ttl={inner}, ttl={ttl})")
                    seen.add("foreground_refresh_failed")
                    if kind == "storeerr":
                        seen.add("foreground_refresh_store_step_failed")
                else:
                    bad(i, "early-not-from-store", f"stored result aged {age} < ttl={ttl} but the call gave {res}")
            tm = timely.get(arg, True) and all(t < s + inner for _, s in ev["infl_before"])
            timely[arg] = tm
            if tm and ev["n"] > 1:
                bad(i, "early-two-refreshes", f"{ev['n']} refreshes in flight although each was younger than early_ttl")
            if L and age == inner:
                seen.add("call_exactly_at_early_ttl")
            if L and age == ttl:
                seen.add("call_exactly_at_ttl")
            if L and inner < age < ttl:
                seen.add("call_between_early_and_ttl")
            if b == 1:
                seen.add("refresh_started")
            if ev["infl_before"] and b == 0 and kind == "stored":
                seen.add("served_while_refresh_in_flight")
                if any(t >= s0 + inner for _, s0 in ev["infl_before"]) and age > inner:
                    seen.add("stale_hit_while_recalculation_outlived_its_lock_starts_nothing")
            if kind == "joined":
                seen.add("cold_miss_joined_recalculation_in_flight")
            if ev["n"] > 1:
                seen.add("two_refreshes_in_flight_untimely")
        elif d == "soft":
            if L and age > inner and x != 1:
                bad(i, "soft-old-not-recomputed", f"stored result aged {age} > soft_ttl={inner} but the call did not execute")
            if kind == "stored":
                a = te - val[0]                    # judged when it is handed out
                if x == 0 and a > inner:
                    bad(i, "soft-stale-without-recompute", f"served a result aged {a} > soft_ttl={inner} without executing")
                if x == 1 and not (o == "lis" and a < ttl):
                    why = (" — the function RETURNED; what failed (or was decided) afterwards is the store step, whose "
                           "error must surface instead of the stale value") if o in RETURNS else ""
                    if o == "lis" and 0 <= t - val[0] < ttl:
                        why = (f" — it was younger than ttl when the call began at {t}, but the recomputation ran for {dur} and failed at "
                               f"{te}: the fallback must be judged at the moment of the failure")
                    bad(i, "soft-stale-wrongly-served", f"served the stored result aged {a} (at the instant {te} it was handed out) after an execution with outcome {o} (ttl={ttl}){why}")
                if x == 1:
                    seen.add("stale_served_on_listed")
            if L and age == inner:
                seen.add("call_exactly_at_soft_ttl")
            if L and age == ttl:
                seen.add("call_exactly_at_ttl")
            if L and age >= ttl and o == "lis":
                seen.add("listed_failure_after_hard_expiry")
            if L and x == 1 and o == "lis" and age < ttl <= age_end:
                seen.add("listed_failure_after_result_expired_during_execution")
            if kind == "stored" and x == 1 and dur:
                seen.add("stale_served_on_slow_listed_failure")
            if L and inner <= age < ttl and o == "unl":
                seen.add("unlisted_failure_with_stale_value")
        elif d == "fail":
            if x != 1:
                bad(i, "failover-not-executed", f"the call executed the function {x} times")
            if kind == "stored":
                a = te - val[0]                    # judged when it is handed out: when the function has failed
                if not (o == "lis" and a < ttl):
                    why = (" — the function RETURNED without raising; what raised is the store step after it (condition / "
                           "callable ttl / backend.set), whose error must surface instead of the older value") if o in RETURNS else ""
                    if o == "lis" and t - val[0] < ttl:
                        why = (f" — it was younger than ttl when the call began at {t}, but the function ran for {dur} and failed at "
                               f"{te}: the fallback must be judged at the moment of the failure")
                    bad(i, "failover-stored-wrongly-served", f"returned the stored result aged {a} although outcome={o}, ttl={ttl}{why}")
                seen.add("stored_served_on_listed")
                if dur:
                    seen.add("stored_served_on_slow_listed_failure")
            if L and o == "lis" and x == 1 and age_end < ttl:
                # 'a stored result younger than ttl is returned when it raises one of the listed exceptions': the result of the
                # latest successful call counts from THAT call, however long ago an equal result was first stored
                if res != f"stored:{L[0]}:{L[1]}":
                    bad(i, "failover-young-result-not-returned",
                        f"the function raised a listed exception at {te}, the latest successful call stored its result at {L[0]} "
                        f"({age_end} < ttl={ttl} ago), but the call gave {res} instead of that result")
            if L and o == "lis" and age < ttl <= age_end:
                seen.add("listed_failure_after_result_expired_during_execution")
            if L and age_end == ttl and o == "lis":
                seen.add("listed_failure_exactly_at_ttl")
            if L and age_end > ttl and o == "lis":
                seen.add("listed_failure_after_expiry")
            if L and age_end < ttl and o == "unl":
                seen.add("unlisted_failure_with_stored")
        elif d == "hit":
            k = since.get(arg, 0) + 1
            since[arg] = k
            live = bool(L) and age < ttl
            seq = sequential.get(arg, True) and not ev["infl_before"]
            sequential[arg] = seq
            began = x >= 1 or b >= 1
            r = (0 if began else run.get(arg, 0)) + (1 if kind == "stored" else 0)
            r2 = (0 if began else run2.get(arg, 0)) + (1 if kind == "stored" else 0)
            run[arg], run2[arg] = r, r2
            if seq and r > hits:
                bad(i, "hit-too-many-serves", f"{r} serves since the function last began to execute (cache_hits={hits})")
            if r2 > hits:
                bad(i, "hit-too-many-serves", f"{r2} serves since the last execution event (cache_hits={hits})")
            due = live and upd != 0 and k == upd and upd <= hits
            if x == 1 and kind == "stored" and not (due and not bg):
                bad(i, "hit-stored-after-own-execution", f"the call executed the function as its own computation (hit count {k}, cache_hits={hits}, "
                                                         f"no foreground refresh due; outcome {o}) and was answered with the stored result {res}")
            if bg:
                if (b == 1) != due:
                    bad(i, "hit-refresh-timing", f"refresh started={b} at hit count {k} (update_after={upd}, stored={live})")
            else:
                if due and x != 1:
                    bad(i, "hit-refresh-timing", f"no refresh at hit count {k} = update_after")
            if x == 1 and o in ("ok", "sL", "sU"):
                # the execution got as far as `gather(delete(counter), set(...))`
                since[arg] = 0
                if o != "ok" and live:
                    reset_kept[arg] = True
                    seen.add("refused_set_deleted_counter_older_result_stays")
            if x == 1 and o == "ok":
                reset_kept[arg] = False
            if kind == "stored" and x == 0 and reset_kept.get(arg):
                seen.add("older_result_served_again_after_refused_set")
            if kind == "stored" and k == hits:
                seen.add("last_allowed_serve")
            if live and k == hits + 1:
                seen.add("execution_after_cache_hits_serves")
            if due:
                seen.add("refresh_at_update_after")
            if due and not bg and o != "ok":
                seen.add("foreground_refresh_failed_propagates")
            if due and not bg and dur:
                seen.add("slow_foreground_refresh")
            if x == 1 and dur and L and age < ttl <= age_end:
                seen.add("result_and_counter_expired_during_execution")
            if L and not live and k <= hits:
                seen.add("stored_result_expired_before_hits_used_up")
            if ev["infl_before"]:
                seen.add("call_while_refresh_in_flight")
            if live and k > hits + 1:
                seen.add("counter_kept_growing_after_failed_execution")
        for rid, rend, rout, rstart in ev["ran"] + ev["late"]:
            if rout == "ok":
                conf[arg] = conf.get(arg) if (ev.get("same") and last.get(arg)) else rend
                last[arg] = (rend, rid)
                lstart[arg] = rstart
    return problems, seen


# ------------------------------------------------------------------------------------------------------------------
# generator
# ------------------------------------------------------------------------------------------------------------------

TTLS = [16, 80]          # 2 s, 10 s
INNERS = [4, 8, 32]      # ½ s, 1 s, 4 s
HITS = [1, 2, 3]
UPDS = [0, 1, 2]
OUTCOMES = ["ok", "ok", "ok", "same", "lis", "unl"]
# mode script: also results the condition turns down and store steps that raise (condition / callable ttl / SET)
SCRIPT_EXTRA = {
    "fail": ["rej", "cL", "cU", "tL", "tU", "sL", "sU"],
    "soft": ["rej", "cL", "cU", "tL", "tU", "sL", "sU"],
    "early": ["rej", "cL", "cU", "sL", "sU"],
    "hit": ["rej", "cL", "cU", "sL", "sU"],
}


def outcomes_for(cfg):
    if cfg.get("mode", "default") != "script":
        return OUTCOMES
    return OUTCOMES + ["ok", "lis"] + SCRIPT_EXTRA[cfg["decor"]]


def gen_cfg(rng, decor=None):
    d = decor or rng.choice(["early", "soft", "fail", "hit"])
    return {
        "decor": d,
        "ttl": rng.choice(TTLS),
        "inner": rng.choice(INNERS) if d in ("early", "soft") else 0,
        "hits": rng.choice(HITS) if d == "hit" else 0,
        "upd": rng.choice(UPDS) if d == "hit" else 0,
        "bg": rng.choice([0, 1]) if d in ("early", "hit") else 0,
        "store": rng.choice(["plain", "plain", "purge", "pickle"]),
        "mode": rng.choice(["default", "script"]),
        **({"cttl": rng.choice([1, 2])} if d == "hit" and rng.random() < 0.3 else {}),
    }


def gaps(cfg):
    """virtual-time gaps around the inner and hard TTL: below, exactly at, between, exactly at, beyond"""
    ttl, inner = cfg["ttl"], cfg["inner"]
    # ... and SUB-SECOND offsets (1 tick = 1/8 s): 2..7 ticks after a store and the last three ticks before the hard ttl
    g = {0, 1, 2, 3, 5, 6, 7, ttl - 3, ttl - 2, ttl - 1, ttl, ttl + 1, 2 * ttl + 3}
    if inner:
        g |= {inner - 1, inner, inner + 1, (inner + ttl) // 2, ttl - inner, max(ttl - inner - 1, 0)}
    else:
        g |= {ttl // 2}
    return sorted(x for x in g if x >= 0)


def durations(cfg, now, mark):
    """durations for a function body started at `now` when the latest store was (possibly) made at `mark`: short ones, the
    lifetime of the early lock / the inner ttl, and those that make the execution END just below / exactly at / just beyond
    the inner and the hard TTL of the stored result"""
    ttl, inner = cfg["ttl"], cfg["inner"]
    ds = {1, 2, 3}
    for B in ((inner, ttl) if inner else (ttl,)):
        ds |= {B - 1, B, B + 1}
        for e in (-1, 0, 1):
            ds.add(mark + B + e - now)
    return sorted(x for x in ds if 0 < x <= 2 * ttl)


def gen_ops(rng, cfg, maxlen=14):
    """calls with gaps aimed at the boundaries: the generator keeps the instant of the latest operation that may have
    stored a result and aims the next call at an age from `gaps` (or just lets a gap pass); about a third of the calls
    carry a duration for their function body, aimed so that the execution straddles a boundary (`durations`)"""
    n = rng.randint(1, maxlen)
    nargs = 1 if rng.random() < 0.75 else 2
    G = gaps(cfg)
    OUT = outcomes_for(cfg)
    ops = []
    now = 0
    mark = {a: 0 for a in ARGS}      # instant of the latest possible store per argument
    infl = {a: 0 for a in ARGS}      # upper bound of refreshes in flight
    while len(ops) < n:
        arg = ARGS[rng.randrange(nargs)]
        r = rng.random()
        if r < 0.45:
            if rng.random() < 0.5:
                target = mark[arg] + rng.choice(G)
                dt = target - now
                if dt < 0:
                    dt = rng.choice(G)
            else:
                dt = rng.choice(G)
            if dt:
                ops.append(f"adv {dt}")
                now += dt
        elif r < 0.60 and cfg["bg"]:
            if infl[arg] or rng.random() < 0.1:
                i = 0 if rng.random() < 0.7 else 1
                o = rng.choice(OUT)
                ops.append(f"done {arg} {i} {o}")
                if o in ("ok", "same"):
                    mark[arg] = now
                infl[arg] = max(0, infl[arg] - 1)
        else:
            o = rng.choice(OUT)
            dur = rng.choice(durations(cfg, now, mark[arg])) if rng.random() < 0.35 else 0
            ops.append(f"call {arg} {o} {dur}" if dur else f"call {arg} {o}")
            if rng.random() < 0.6:
                now += dur          # the body ran (a guess: whether it does is the decorator's decision)
                if o in ("ok", "same"):
                    mark[arg] = now
            if cfg["bg"]:
                infl[arg] += 1 if rng.random() < 0.5 else 0
    return ops


# ------------------------------------------------------------------------------------------------------------------
# exhaustive enumeration of short histories over a boundary alphabet (one argument value)
# ------------------------------------------------------------------------------------------------------------------

ENUM = [
    # cfg (ttl 2 s, inner ½ s), alphabet: the gaps 4,12,1 reach ages exactly early/soft (4), between (5), exactly ttl (16), beyond (17)
    ({"decor": "early", "ttl": 16, "inner": 4, "hits": 0, "upd": 0, "bg": 1, "store": "plain"},
     ["call a ok", "call a lis", "adv 4", "adv 12", "adv 1", "done a 0 ok", "done a 0 lis"]),
    ({"decor": "early", "ttl": 16, "inner": 4, "hits": 0, "upd": 0, "bg": 0, "store": "plain"},
     ["call a ok", "call a lis", "adv 4", "adv 12", "adv 1"]),
    ({"decor": "soft", "ttl": 16, "inner": 4, "hits": 0, "upd": 0, "bg": 0, "store": "plain"},
     ["call a ok", "call a lis", "call a unl", "adv 4", "adv 12", "adv 1"]),
    ({"decor": "fail", "ttl": 16, "inner": 0, "hits": 0, "upd": 0, "bg": 0, "store": "plain"},
     ["call a ok", "call a lis", "call a unl", "adv 15", "adv 1"]),
    ({"decor": "hit", "ttl": 16, "inner": 0, "hits": 2, "upd": 1, "bg": 1, "store": "plain"},
     ["call a ok", "call a lis", "adv 15", "adv 1", "done a 0 ok", "done a 0 lis"]),
    ({"decor": "hit", "ttl": 16, "inner": 0, "hits": 2, "upd": 2, "bg": 0, "store": "plain"},
     ["call a ok", "call a lis", "adv 15", "adv 1"]),
]

# mode script: the store step fails (condition / callable ttl / SET; listed / unlisted) or turns the result down, with
# and without an older stored result, young / stale / expired
ENUM_SCRIPT = [
    ({"decor": "fail", "ttl": 16, "inner": 0, "hits": 0, "upd": 0, "bg": 0, "store": "plain", "mode": "script"},
     ["call a ok", "call a lis", "call a cL", "call a tU", "call a sL", "call a rej", "adv 15", "adv 1"]),
    ({"decor": "soft", "ttl": 16, "inner": 4, "hits": 0, "upd": 0, "bg": 0, "store": "plain", "mode": "script"},
     ["call a ok", "call a lis", "call a tL", "call a cU", "call a sL", "call a rej", "adv 4", "adv 12"]),
    ({"decor": "early", "ttl": 16, "inner": 4, "hits": 0, "upd": 0, "bg": 0, "store": "plain", "mode": "script"},
     ["call a ok", "call a lis", "call a cL", "call a sU", "call a rej", "adv 5", "adv 11"]),
    ({"decor": "early", "ttl": 16, "inner": 4, "hits": 0, "upd": 0, "bg": 1, "store": "plain", "mode": "script"},
     ["call a ok", "call a cL", "call a rej", "adv 5", "done a 0 ok", "done a 0 sL", "done a 0 rej"]),
    ({"decor": "hit", "ttl": 16, "inner": 0, "hits": 2, "upd": 2, "bg": 0, "store": "plain", "mode": "script"},
     ["call a ok", "call a lis", "call a sL", "call a cU", "call a rej", "adv 16"]),
    ({"decor": "hit", "ttl": 16, "inner": 0, "hits": 2, "upd": 1, "bg": 1, "store": "plain", "mode": "script"},
     ["call a ok", "call a sU", "call a rej", "done a 0 ok", "done a 0 sL", "done a 0 cL", "done a 0 rej"]),
]


# executions that take time: calls whose function body lasts 2 ticks (ttl 2 s, inner ½ s), with gaps that put the start of
# the call just below a boundary so that the execution ends exactly at / just beyond it (3+... = inner, 14/15+... = ttl)
ENUM_DUR = [
    ({"decor": "fail", "ttl": 16, "inner": 0, "hits": 0, "upd": 0, "bg": 0, "store": "plain"},
     ["call a ok", "call a ok 2", "call a lis", "call a lis 2", "call a lis 1", "adv 14", "adv 1"]),
    ({"decor": "soft", "ttl": 16, "inner": 4, "hits": 0, "upd": 0, "bg": 0, "store": "plain"},
     ["call a ok", "call a ok 2", "call a lis", "call a lis 2", "call a unl 2", "adv 3", "adv 11", "adv 1"]),
    ({"decor": "early", "ttl": 16, "inner": 4, "hits": 0, "upd": 0, "bg": 0, "store": "plain"},
     ["call a ok", "call a ok 2", "call a lis 2", "call a ok 5", "adv 3", "adv 11", "adv 1"]),
    ({"decor": "early", "ttl": 16, "inner": 4, "hits": 0, "upd": 0, "bg": 1, "store": "plain"},
     ["call a ok 2", "call a lis 2", "call a ok", "adv 3", "adv 11", "adv 1", "done a 0 ok"]),
    ({"decor": "hit", "ttl": 16, "inner": 0, "hits": 2, "upd": 1, "bg": 0, "store": "plain"},
     ["call a ok", "call a ok 2", "call a lis 2", "adv 14", "adv 1"]),
    ({"decor": "hit", "ttl": 16, "inner": 0, "hits": 1, "upd": 0, "bg": 1, "store": "plain"},
     ["call a ok 2", "call a lis 2", "call a lis", "adv 14", "adv 1"]),
    ({"decor": "soft", "ttl": 16, "inner": 4, "hits": 0, "upd": 0, "bg": 0, "store": "plain", "mode": "script"},
     ["call a ok 2", "call a lis 2", "call a sL 2", "call a rej 2", "call a tU 2", "adv 3", "adv 11"]),
    ({"decor": "fail", "ttl": 16, "inner": 0, "hits": 0, "upd": 0, "bg": 0, "store": "plain", "mode": "script"},
     ["call a ok 2", "call a lis 2", "call a cL 2", "call a rej 2", "call a sU 2", "adv 14", "adv 1"]),
]


# one recalculation of a key at a time (D44): a background refresh that outlives its lock key (adv 5 after its start) and the
# stored result (adv 12): stale hits meanwhile start nothing, cold misses are parked on it and answered at its `done`
ENUM_JOIN = [
    ({"decor": "early", "ttl": 16, "inner": 4, "hits": 0, "upd": 0, "bg": 1, "store": "plain"},
     ["call a ok", "adv 5", "adv 12", "done a 0 ok", "done a 0 lis"]),
]


# sub-second steps (hit: a first hit 5/8 s after the store, then the last ticks before the hard ttl of 2 s) and successful
# executions that return a result EQUAL to the stored one (failover / soft / hit: `same`)
ENUM_FINE = [
    ({"decor": "hit", "ttl": 16, "inner": 0, "hits": 1, "upd": 0, "bg": 0, "store": "plain"},
     ["call a ok", "adv 5", "adv 9", "adv 1"]),
    ({"decor": "hit", "ttl": 16, "inner": 0, "hits": 2, "upd": 1, "bg": 1, "store": "plain"},
     ["call a ok", "adv 6", "adv 8", "done a 0 lis"]),
    ({"decor": "fail", "ttl": 16, "inner": 0, "hits": 0, "upd": 0, "bg": 0, "store": "plain"},
     ["call a ok", "call a same", "call a lis", "adv 15"]),
    ({"decor": "soft", "ttl": 16, "inner": 4, "hits": 0, "upd": 0, "bg": 0, "store": "plain"},
     ["call a same", "call a lis", "adv 4", "adv 11"]),
]


def enumerate_histories(alphabet, maxlen):
    """all non-empty op lists up to maxlen that start with a call and in which a `done` only occurs after a call"""
    out = []

    def rec(prefix):
        if prefix:
            out.append(list(prefix))
        if len(prefix) == maxlen:
            return
        for a in alphabet:
            if not prefix and not a.startswith("call"):
                continue
            prefix.append(a)
            rec(prefix)
            prefix.pop()
    rec([])
    return out
