"""C12, transaction stage: tagged writes / deletes / delete_tags inside `cache.transaction()` (modes fast, locked, serializable),
ended by a commit or a rollback, then delete_tags and probes outside the block.

ORACLE-JUDGED ONLY (no Lean model of transactions x tags): the harness keeps its own log `last[k]` = tags of the latest
write of k in program order and judges, at every delete_tags issued OUTSIDE a block and as long as no block of the history
was rolled back:
  complete: every key whose latest write carried one of the tags is unreadable afterwards;
  never:    a key none of whose writes ever carried one of the tags keeps its value.
What the library does when a block is rolled back (set_add / set_pop of the tag sets are not buffered: memberships written or
popped inside the block stay) is outside the property; histories with a rollback are run (no exception may escape) but not judged.
The second precision clause is not judged here either: a key written with a tag and deleted again INSIDE one block never
reaches the backend, so no on-remove callback prunes the membership the unbuffered set_add left (observed, not judged).

Ops: set K V TTL TAGS | incr K TTL TAGS | delete K | delmany K.. | deltags T.. | get K | adv N | tx MODE | commit | rollback
(K, T = indices into KEYS / TAGS; TTL = ticks or `-`; TAGS = `-` or `i+j`; a block left open is committed at the end).
"""
from __future__ import annotations

from . import vtime
from .core import HarnessError
from .vtime import CLOCK

KEYS = ["x:0", "x:1", "x:2"]
TAGS = ["ta", "tb", "g:0", "g:1", "g:2"]
MODES = ["fast", "locked", "serializable"]
SENT = object()


def key_tags(ki: int) -> list[int]:
    return [0, 1, 2 + ki]


class TxRun:
    def __init__(self):
        self.failures: list[dict] = []
        self.trace: list[str] = []
        self.stats: dict[str, int] = {}
        self.last = [[] for _ in KEYS]
        self.ever = [set() for _ in KEYS]
        self.judged = True
        self.deleted_in_block: set[int] = set()
        self.in_block = False

    def bump(self, k):
        self.stats[k] = self.stats.get(k, 0) + 1

    async def one(self, cache, w):
        op = w[0]
        if op == "set":
            ki, ttl, tags = int(w[1]), (None if w[3] == "-" else int(w[3]) / 8), ([] if w[4] == "-" else [int(x) for x in w[4].split("+")])
            r = await cache.set(KEYS[ki], w[2], expire=ttl, tags=[TAGS[t] for t in tags])
            if r is True:
                self.last[ki] = tags
                self.ever[ki].update(tags)
                if self.in_block and tags and ki in self.deleted_in_block:
                    self.bump("tagged_rewrite_of_key_deleted_in_the_same_block")
                if self.in_block and tags:
                    self.bump("tagged_write_in_block")
            return f"{r}"
        if op == "incr":
            ki, ttl, tags = int(w[1]), (None if w[2] == "-" else int(w[2]) / 8), ([] if w[3] == "-" else [int(x) for x in w[3].split("+")])
            try:
                r = await cache.incr(KEYS[ki], 1, expire=ttl, tags=[TAGS[t] for t in tags])
            except (ValueError, TypeError):
                return "E"
            self.last[ki] = tags
            self.ever[ki].update(tags)
            if self.in_block and tags and ki in self.deleted_in_block:
                self.bump("tagged_rewrite_of_key_deleted_in_the_same_block")
            return f"n={r}"
        if op == "delete":
            await cache.delete(KEYS[int(w[1])])
            if self.in_block:
                self.deleted_in_block.add(int(w[1]))
            return "U"
        if op == "delmany":
            await cache.delete_many(*[KEYS[int(x)] for x in w[1:]])
            if self.in_block:
                self.deleted_in_block.update(int(x) for x in w[1:])
            return "U"
        if op == "get":
            r = await cache.get(KEYS[int(w[1])], default=SENT)
            return "-" if r is SENT else repr(r)
        if op == "deltags":
            tl = [int(x) for x in w[1:]]
            judge = self.judged and not self.in_block
            die = [k for k in range(len(KEYS)) if any(t in self.last[k] for t in tl)]
            never = [k for k in range(len(KEYS)) if not any(t in self.ever[k] for t in tl)]
            before = {k: await cache.get(KEYS[k], default=SENT) for k in never} if judge else {}
            if self.in_block:
                self.deleted_in_block.update(die)
                self.bump("delete_tags_in_block")
            await cache.delete_tags(*[TAGS[t] for t in tl])
            if judge:
                self.bump("delete_tags_judged")
                if die:
                    self.bump("delete_tags_judged_with_carriers")
                for k in die:
                    r = await cache.get(KEYS[k], default=SENT)
                    if r is not SENT:
                        self.failures.append({"clause": "complete", "key": KEYS[k], "what": f"`{' '.join(w)}`: key {KEYS[k]!r} whose latest write carried one of the tags is still readable ({r!r})"})
                for k in never:
                    r = await cache.get(KEYS[k], default=SENT)
                    if r != before[k] and not (r is SENT and before[k] is SENT):
                        self.failures.append({"clause": "never", "key": KEYS[k], "what": f"`{' '.join(w)}`: key {KEYS[k]!r} never carried the tags but changed: {before[k]!r} -> {r!r}"})
            return "U"
        raise HarnessError(f"bad op {w}")

    async def run(self, ops):
        from cashews import Cache, TransactionMode

        cache = Cache()
        cache.setup("mem://?size=10000&check_interval=0")
        for t in ("ta", "tb", "g:{i}"):
            cache.register_tag(t, "x:{i}")
        await cache.init()
        i = 0
        while i < len(ops):
            w = ops[i].split()
            if w[0] == "adv":
                CLOCK.advance(int(w[1]))
                self.trace.append(f"{ops[i]} -> U")
                i += 1
                continue
            if w[0] in ("commit", "rollback"):      # outside a block (left over by shrinking): nothing to do
                i += 1
                continue
            if w[0] != "tx":
                self.trace.append(f"{ops[i]} -> {await self.one(cache, w)}")
                i += 1
                continue
            mode = {"fast": TransactionMode.FAST, "locked": TransactionMode.LOCKED, "serializable": TransactionMode.SERIALIZABLE}[w[1]]
            j = i + 1
            inner = []
            while j < len(ops) and ops[j].split()[0] not in ("commit", "rollback", "tx"):
                inner.append(ops[j])
                j += 1
            ending = ops[j].split()[0] if j < len(ops) and ops[j].split()[0] in ("commit", "rollback") else "commit"
            self.in_block = True
            self.deleted_in_block = set()
            self.trace.append(f"tx {w[1]} {{")
            self.bump("block_" + w[1] + "_" + ending)
            t0 = CLOCK.t
            async with cache.transaction(mode, timeout=1000) as tx:
                for line in inner:
                    ww = line.split()
                    if ww[0] == "adv":
                        continue                       # no time passes inside a block
                    self.trace.append(f"   {line} -> {await self.one(cache, ww)}")
                if ending == "rollback":
                    await tx.rollback()
                    self.judged = False            # outside the property from here on
            if CLOCK.t != t0:
                raise HarnessError("the virtual clock moved inside a transaction block")
            self.in_block = False
            self.trace.append(f"}} {ending}")
            i = j + 1 if j < len(ops) and ops[j].split()[0] in ("commit", "rollback") else j
        await cache.close()


def execute(ops) -> TxRun:
    r = TxRun()
    try:
        vtime.run(r.run, ops)
    except HarnessError:
        raise
    except Exception as exc:  # noqa: BLE001 - an exception escaping a history is itself a finding
        r.failures.append({"clause": "exception", "key": "-", "what": f"{type(exc).__name__}: {exc}"[:200]})
    return r


def gen_tags(rng, ki):
    pool = key_tags(ki)
    if rng.random() < 0.2:
        return "-"
    return "+".join(map(str, rng.sample(pool, rng.choice([1, 1, 2]))))


def gen_write(rng, ki=None, tagged=None):
    ki = rng.randrange(len(KEYS)) if ki is None else ki
    tags = gen_tags(rng, ki) if tagged is None else ("+".join(map(str, tagged)) if tagged else "-")
    ttl = rng.choice(["-", "-", "800", "16"])
    if rng.random() < 0.2:
        return f"incr {ki} {ttl} {tags}"
    return f"set {ki} v{rng.randrange(9)} {ttl} {tags}"


def gen_case(rng) -> list[str]:
    nk = len(KEYS)
    ops = []
    for _ in range(rng.randint(0, 3)):
        ops.append(rng.choice([gen_write(rng), gen_write(rng), f"delete {rng.randrange(nk)}", f"adv {rng.choice([1, 8, 17])}", f"deltags {rng.randrange(len(TAGS))}"]))
    for _ in range(rng.choice([1, 1, 2])):
        ops.append(f"tx {rng.choice(MODES)}")
        if rng.random() < 0.6:
            # invalidate and repopulate: a key that is in the backend (usually) is deleted - one of the ways - and written again with a tag
            ki = rng.randrange(nk)
            t = rng.choice(key_tags(ki))
            if rng.random() < 0.75:
                ops.insert(len(ops) - 1, gen_write(rng, ki, tagged=rng.choice([[t], [t], [], [rng.choice(key_tags(ki))]])))
            ops.append(rng.choice([f"delete {ki}", f"delmany {ki} {rng.randrange(nk)}", f"deltags {t}"]))
            if rng.random() < 0.3:
                ops.append(f"get {ki}")
            ops.append(gen_write(rng, ki, tagged=[t] + ([rng.choice(key_tags(ki))] if rng.random() < 0.3 else [])))
        for _ in range(rng.randint(0, 3)):
            ops.append(rng.choice([gen_write(rng), gen_write(rng), f"delete {rng.randrange(nk)}", f"get {rng.randrange(nk)}",
                                   f"deltags {rng.randrange(len(TAGS))}", f"delmany {rng.randrange(nk)} {rng.randrange(nk)}"]))
        ops.append("commit" if rng.random() < 0.8 else "rollback")
        for _ in range(rng.randint(0, 2)):
            ops.append(rng.choice([gen_write(rng), f"adv {rng.choice([1, 8, 17])}", f"get {rng.randrange(nk)}"]))
    ops.append("deltags " + " ".join(map(str, rng.sample(range(len(TAGS)), rng.choice([1, 1, 2])))))
    ops += [f"get {k}" for k in range(nk)]
    return ops
