"""C06 runner: executes a *lock case* (2-4 scripted tasks entering/leaving guarded sections) on the real
cashews code under the virtual clock and returns the event log.

Two execution modes
  timed : plain asyncio on harness.vtime.VLoop - tasks start at scripted virtual instants, bodies sleep for
          scripted durations, cancellations are delivered at scripted instants (they land on whatever
          suspension point the task is at: the body's sleep, the wait loop's sleep, a sleep(0) spin);
  gated : the command-level gate scheduler (harness/sched.py) parks every task before each outermost
          backend command and at scripted `point`s; a schedule (list of choices) decides who moves, when
          virtual time may pass ("t") and who gets cancelled (["c", task]).

Sections are entered through the public API under test:
  via = "cm"   : `async with api.lock(key, expire=ttl, wait=..., check_interval=...)`
  via = "deco" : `@api.locked(ttl=..., key=..., wait=..., check_interval=...)` on a coroutine function
  via = "gen"  : the same decorator on an async generator function (consumed with `async for`)
where api is the `Cache` facade (cfg "facade*") or the backend itself (cfg "raw*": `Memory.lock`,
`cashews.decorators.locked(backend, ...)`).

Several backends (facade configurations only): `case["backends"] = [{"p": <prefix index>, "off": "all" | [command names]}, ...]`
sets up one recording backend per entry under the prefix PREFIXES[p] and then disables it entirely / disables the listed
commands on it through the facade (`cache.disable(..., prefix=...)`, before the tasks are created: they inherit the
setting).  A section's `"be"` names the prefix its key is built with: `PREFIXES[be] + "locked:K<key>"`.  Every backend gets a
recording middleware (outermost) which logs what the facade got back from it for PING (`mw_ping`) and every None answer of
SET_LOCK / UNLOCK / IS_LOCKED (`disabled`: the command never reached the backend).

Transactions (facade only): a step `["tx", "f"|"l"|"s", body, "n"|"e"]` runs `body` inside `async with
api.transaction(<mode>)` (end "e": a scripted exception leaves the block -> rollback); sections may be entered inside such a
block and blocks may be opened inside a section body; `["set", v]` writes the task's own application key (inside a block it
goes to the overlay, in LOCKED / SERIALIZABLE mode behind a `:tx_lock:` / `:serializable:lock` key on the backend - lock
commands on keys that are not scripted lock keys are logged as `aux_*` and are not part of the protocol under test).

Everything observable is recorded by `RecMemory` (a subclass that logs set_lock / unlock / is_locked / ping
with their results and the virtual instant) and by the scripted bodies (body_enter / body_exit / outcome).
No uuid, address or float is ever compared: identifiers are mapped to activation numbers in order of first
appearance.

Purge sweeps are observed on the store itself, not on how the purge task is written: `RecMemory` derives from
`memhist.observed_memory()` (its `store` reports every mutation); a mutation made by a task that is neither
the harness's main task nor a scripted task is background activity and is logged as a `sweep` event (one
event per run of background mutations not separated by any other event, with what was done to which key).
A sweep that suspends part-way therefore appears as several `sweep` events with the scripted tasks' commands
between them, exactly as it happened.
"""
from __future__ import annotations

import asyncio
import contextlib
import contextvars
import re
from typing import Any

from . import memhist, vtime
from .sched import TASK_ID, Sched, gated
from .vtime import CLOCK, TICK

MAX_COMMANDS = 40000          # a run with more recorded events than this is declared a livelock
MAX_RAW = 1000000             # ... or one that issues more commands than this, recorded or not

CONFIGS = {
    # name: facade?, purge interval in ticks (0 = purge task off), extra url params
    "raw": dict(facade=False, purge=0, extra=""),
    "raw_purge": dict(facade=False, purge=4, extra=""),
    "facade": dict(facade=True, purge=0, extra=""),
    "facade_purge": dict(facade=True, purge=4, extra=""),
    "facade_secret": dict(facade=True, purge=0, extra="&secret=s3cr3t&digestmod=sha1"),
}


class Livelock(BaseException):
    pass


class BodyError(Exception):
    """the scripted exception a body raises"""


class HarnessBase(BaseException):
    """a BaseException outside Exception that a scripted body raises"""


BUILTIN_ENDS = {"RuntimeError": RuntimeError, "KeyError": KeyError, "TimeoutError": TimeoutError,
                "StopAsyncIteration": StopAsyncIteration, "CancelledError": asyncio.CancelledError,
                "BaseException": HarnessBase}


def library_exceptions() -> list[str]:
    """every exception class cashews/exceptions.py defines (of the tree under test), by name"""
    import cashews.exceptions as ex

    return sorted(n for n, c in vars(ex).items()
                  if isinstance(c, type) and issubclass(c, BaseException) and c.__module__ == ex.__name__)


def scripted_exception(name: str) -> BaseException:
    import cashews.exceptions as ex

    cls = BUILTIN_ENDS.get(name) or getattr(ex, name, None)
    if cls is None:
        cls = type(name, (ex.CacheError,), {})        # a class this tree does not (yet / any more) define
    exc = cls("scripted")
    exc._verif_scripted = True
    return exc


def is_scripted(exc) -> bool:
    if getattr(exc, "_verif_scripted", False):
        return True
    # `raise StopAsyncIteration` inside an async generator comes out as RuntimeError(...) from it
    if isinstance(exc, RuntimeError):
        inner = exc.__cause__ or exc.__context__
        return getattr(inner, "_verif_scripted", False)
    return False


class TxAbort(Exception):
    """the scripted exception that leaves a transaction block (rollback)"""


PREFIXES = ["", "p:", "q:"]
TX_MODES = {"f": "FAST", "l": "LOCKED", "s": "SERIALIZABLE"}
_LOCK_KEY = re.compile(r"^(p:|q:)?(locked|lock:cl):K(\d+)$")
HELPER_PREFIX = "app:"          # what the `add_prefix` helper middleware of a case puts in front of every key
_STORED_KEY = re.compile(r"^(app:)?(p:|q:)?(locked|lock:cl):[Kk](\d+)$")


def canon(key):
    """the scripted lock key behind the key a backend was handed: the key-rewriting helper middlewares of a case
    (`add_prefix("app:")`, `all_keys_lower()`) rename lock keys consistently; anything else is returned as it is"""
    if isinstance(key, str):
        m = _STORED_KEY.match(key)
        if m:
            return f"{m.group(2) or ''}{m.group(3)}:K{m.group(4)}"
    return key


def is_lock_key(key) -> bool:
    return isinstance(key, str) and _LOCK_KEY.match(key) is not None


def knum(key: str) -> int:
    """model key number of a scripted lock key: 100 * (index of the prefix it is built with) + k
    (+ 50 for the lock keys of `@cache(lock=True)` functions, `lock:cl:K<k>`: a key space of their own)"""
    m = _LOCK_KEY.match(key)
    return 100 * PREFIXES.index(m.group(1) or "") + (50 if m.group(2) != "locked" else 0) + int(m.group(3))


def owner_prefix(key: str, backends: list) -> int | None:
    """prefix index of the configured backend that owns `key`: the longest registered prefix the key starts with
    (cashews/wrapper/wrapper.py `_get_backend`; C17) - None = NotConfiguredError"""
    best = None
    for b in backends:
        pre = PREFIXES[b["p"]]
        if key.startswith(pre) and (best is None or len(pre) > len(PREFIXES[best])):
            best = b["p"]
    return best


def case_backends(case: dict) -> list:
    return case.get("backends") or [{"p": 0, "off": []}]


def health_of(b: dict) -> tuple[bool, bool]:
    """(SET_LOCK enabled, PING answered) of a configured backend"""
    off = b.get("off") or []
    if off == "all":
        return False, False
    return "set_lock" not in off, "ping" not in off


SEC: contextvars.ContextVar[Any] = contextvars.ContextVar("verif_lock_section", default=None)
_current: "Run | None" = None


def keyname(k: int, be: int = 0) -> str:
    return f"{PREFIXES[be]}locked:K{k}"


def _mk_rec_class():
    Memory = memhist.observed_memory()

    class RecMemory(Memory):
        """logs the lock commands at the moment they execute (no suspension inside Memory's commands)"""

        def _raw_state(self, key):
            ent = self.store.get(key)
            if ent is None:
                return "absent"
            if ent[0] is not None and ent[0] <= CLOCK.t:
                return "expired"
            return "live"

        vidx = 0        # prefix index this instance is registered under

        async def set_lock(self, key, value, expire):
            run = _current
            raw = self._raw_state(key)
            r = await super().set_lock(key, value, expire)
            key = canon(key)
            if run is not None:
                if is_lock_key(key):
                    run.log("set_lock", key=key, tok=value, ttl=expire, res=r, raw=raw, sec=SEC.get(), be=self.vidx)
                else:
                    run.log("aux_set_lock", key=key, res=r, be=self.vidx)
            return r

        async def unlock(self, key, value):
            run = _current
            raw = self._raw_state(key)
            r = await super().unlock(key, value)
            key = canon(key)
            if run is not None:
                if is_lock_key(key):
                    run.log("unlock", key=key, tok=value, res=r, raw=raw, sec=SEC.get(), be=self.vidx)
                else:
                    run.log("aux_unlock", key=key, res=r, be=self.vidx)
            return r

        async def is_locked(self, key, wait=None, step=0.1):
            run = _current
            r = await super().is_locked(key, wait=wait, step=step)
            key = canon(key)
            if run is not None:
                run.log("probe" if is_lock_key(key) else "aux_probe", key=key, res=r, be=self.vidx)
            return r

        async def ping(self, message=None):
            if _current is not None:
                _current.log("ping", msg=message, sec=SEC.get(), be=self.vidx)
            return await super().ping(message)

    return RecMemory


_classes: dict = {}


def _classes_get():
    """RecMemory and its gated variant, registered once as cashews backends `vlock://` / `vlockg://`"""
    if not _classes:
        from cashews.wrapper import register_backend

        rec = _mk_rec_class()
        g = gated(rec, lambda: _current.sched, label=lambda name, args, kwargs: (name, args, kwargs))
        register_backend("vlock", rec)
        register_backend("vlockg", g)
        _classes["rec"] = rec
        _classes["gated"] = g
    return _classes


class LSched(Sched):
    """harness/sched.py's scheduler with two additions needed for lock waiters: a schedule entry "t" (let
    up to one tick of virtual time pass while tasks stay parked) and a default policy (exhausted schedule)
    that does not spin on a waiter whose retry cannot succeed."""

    def __init__(self, run: "Run", schedule=()):
        super().__init__(schedule)
        self.runobj = run
        self.max_steps = 4000
        self.skipped_cancels = 0
        self.choices: list[int] = []            # index actually released at each choice point
        self._keep: list = []
        self.skip_pointless = bool(run.case.get("skip_pointless"))

    async def point(self, label: Any = None):
        """Sched.point, keeping a strong reference to every future a task ever parked on.  A second coroutine running under
        the same task id (e.g. a body that the code under test moved into a task of its own and orphaned) can overwrite the
        `parked` entry of the first; the shadowed one would then be reachable only through itself and be destroyed whenever
        the cyclic garbage collector happens to run - its `finally` blocks would log at an arbitrary point of the run."""
        tid = TASK_ID.get()
        if tid is None:
            return
        fut = asyncio.get_running_loop().create_future()
        self._keep.append(fut)
        self.parked[tid] = (fut, label)
        if self._wake is not None:
            self._wake.set()
        try:
            await fut
        finally:
            if self.parked.get(tid, (None,))[0] is fut:
                self.parked.pop(tid, None)

    def _pointless(self, tid) -> bool:
        fut, label = self.parked[tid]
        if not (isinstance(label, tuple) and label and label[0] == "set_lock"):
            return False
        return self.runobj.last_fail.get(tid) == (self.runobj.version, CLOCK.t)

    async def _time_step(self):
        before = CLOCK.t
        await asyncio.sleep(TICK)
        if CLOCK.t != before:
            self.trace.append(("time", round((CLOCK.t - before) / TICK)))

    async def run(self, programs):
        loop = asyncio.get_running_loop()
        self._wake = asyncio.Event()

        def starter(tid, fn):
            async def body():
                TASK_ID.set(tid)
                await self.point(("start",))
                return await fn()
            return body

        for tid, fn in programs.items():
            t = loop.create_task(starter(tid, fn)())
            self.tasks[tid] = t

            def done(task, tid=tid):
                if task.cancelled():
                    out = ("cancelled",)
                elif task.exception() is not None:
                    out = ("raised", type(task.exception()).__name__, str(task.exception())[:80])
                else:
                    out = ("returned", task.result())
                self.outcomes[tid] = out
                self.trace.append(("done", tid, out))
            t.add_done_callback(done)

        steps = 0
        idle_time = 0
        while True:
            await self._quiesce()
            live = [tid for tid, t in self.tasks.items() if not t.done()]
            if not live:
                break
            steps += 1
            if steps > self.max_steps:
                raise Livelock("scheduler: step budget exhausted")
            if not self.parked:
                idle_time += 1
                if idle_time > 4000:
                    raise Livelock("scheduler: nobody moves for 4000 ticks")
                await self._time_step()
                continue
            ids = sorted(self.parked)
            if self.skip_pointless:
                # enumeration mode: a retry that cannot succeed is never a choice; time passes only when
                # nobody has a useful move
                ids = [tid for tid in ids if not self._pointless(tid)]
            if not ids:
                e = "t"
            elif self.pos < len(self.schedule):
                e = self.schedule[self.pos]
                self.pos += 1
            else:
                useful = [i for i, tid in enumerate(ids) if not self._pointless(tid)]
                e = useful[0] if useful else "t"
            if e == "t":
                idle_time += 1
                if idle_time > 4000:
                    raise Livelock("scheduler: waiters never get the lock (4000 ticks)")
                await self._time_step()
                continue
            if isinstance(e, (list, tuple)) and e[0] == "c":
                tid = e[1]
                if tid in self.tasks and not self.tasks[tid].done():
                    lab = self.parked.get(tid, (None, None))[1]
                    if isinstance(lab, tuple) and lab and lab[0] == "unlock" and self.runobj.is_own_unlock(lab):
                        # a second exception delivered inside the `finally` is outside the property
                        self.skipped_cancels += 1
                    else:
                        self.trace.append(("cancel", tid))
                        self.runobj.log("cancel", task=tid)
                        self.tasks[tid].cancel()
                continue
            idle_time = 0
            self.branching.append(len(ids))
            self.choices.append(e % len(ids))
            tid = ids[e % len(ids)]
            fut, label = self.parked.pop(tid)
            self.trace.append(("run", tid, label[0] if isinstance(label, tuple) and label else label))
            fut.set_result(None)
        return self.outcomes


class Run:
    def __init__(self, case: dict):
        self.case = case
        self.cfg = CONFIGS[case["cfg"]]
        self.gated = case["mode"] == "gated"
        self.events: list[dict] = []
        self.ncmd = 0
        self.nrec = 0
        self.spin_seen: set = set()
        self.version = 0
        self.last_fail: dict = {}
        self.main_task = None
        self.last_sweep = None              # (instant, event count, the `sweep` event) of the latest background mutation
        self.torn = False                   # the run is being torn down: nothing that happens now is an observation
        self.sched: LSched | None = None
        self.sec_counter = 0
        self.idents: set = set()
        self.livelock: str | None = None
        self.api = None
        self.backend = None
        self.backends: list = []
        self.deco = None
        self.shared: dict = {}              # decorated functions with a callable ttl, shared by the sections of the run
        self.calls: dict = {}               # section id -> the scripted body the shared function runs for that call

    # ---- log ----------------------------------------------------------------------------------------
    def _mutation(self, op, key, store):
        """called by the observed store after every mutation (see memhist.LoggedStore)"""
        if self.torn or not any(store is b.store for b in self.backends):
            return
        if asyncio.current_task() is self.main_task or (TASK_ID.get() if self.gated else _TIMED_TASK.get()) is not None:
            return                          # the harness itself / a scripted task inside a command
        be = next(b.vidx for b in self.backends if b.store is store)
        ls = self.last_sweep
        if ls is None or ls[:2] != (CLOCK.t, self.ncmd) or ls[2]["be"] != be:
            self.log("sweep", task=None, did=[], be=be)
            ls = self.last_sweep = (CLOCK.t, self.ncmd, self.events[-1])
        ls[2]["did"].append([op, canon(key)])

    def log(self, ev: str, **kw):
        if self.torn:
            return
        self.ncmd += 1
        if self.ncmd > MAX_RAW:
            raise Livelock(f"more than {MAX_RAW} commands")
        kw["ev"] = ev
        kw["t"] = CLOCK.ticks()
        kw.setdefault("task", TASK_ID.get() if self.gated else _TIMED_TASK.get())
        if ev == "set_lock":
            self.idents.add(kw["tok"])
            if kw["res"]:
                self.version += 1
            else:
                self.last_fail[kw["task"]] = (self.version, CLOCK.t)
        elif ev == "unlock" and kw["res"]:
            self.version += 1
        # A wait=True caller with check_interval 0 retries in a sleep(0) spin: dozens of identical refused set_lock (+ probe)
        # per tick and waiter.  A retry that repeats, at the same instant and with no lock taken or released in between, what
        # the same call already observed carries no information (the analysis skipped it anyway) and is not recorded - a long
        # wait of several spinning callers must not exhaust the event budget and be mistaken for a livelock.
        if ev == "ping":
            return
        if (ev == "set_lock" and not kw["res"]) or ev == "mw_ping":
            sig = (ev, kw.get("tok") if ev == "set_lock" else kw.get("sec"), kw.get("be"), kw["res"], self.version, CLOCK.t)
            if sig in self.spin_seen:
                return
            if len(self.spin_seen) > 64:
                self.spin_seen.clear()
            self.spin_seen.add(sig)
        self.nrec += 1
        if self.nrec > MAX_COMMANDS:
            raise Livelock(f"more than {MAX_COMMANDS} events")
        self.events.append(kw)

    def is_own_unlock(self, label) -> bool:
        _, args, kwargs = label
        v = kwargs.get("value", args[1] if len(args) > 1 else None)
        return v in self.idents

    # ---- setup --------------------------------------------------------------------------------------
    def _recording_middleware(self, p: int):
        """outermost middleware of backend `p`: what the facade gets back from it (None = the command is disabled)"""
        from cashews import Command

        watched = {Command.SET_LOCK: "set_lock", Command.UNLOCK: "unlock", Command.IS_LOCKED: "is_locked"}
        run = self

        async def mw(call, cmd, backend, *args, **kwargs):
            r = await call(*args, **kwargs)
            if cmd is Command.PING:
                run.log("mw_ping", be=p, res=r is not None, sec=SEC.get())
            elif cmd in watched and r is None:
                run.log("disabled", cmd=watched[cmd], key=kwargs.get("key", args[0] if args else None), be=p, sec=SEC.get())
            return r

        return mw

    def _helper_middlewares(self) -> tuple:
        """the user middlewares of cashews/helpers.py a case installs with setup(middlewares=...):
        ["memory_limit", min_bytes, max_bytes|None], ["add_prefix"], ["lower"]"""
        from cashews import helpers

        out = []
        for spec in self.case.get("mw") or []:
            if spec[0] == "memory_limit":
                out.append(helpers.memory_limit(min_bytes=spec[1], max_bytes=spec[2]))
            elif spec[0] == "add_prefix":
                out.append(helpers.add_prefix(HELPER_PREFIX))
            elif spec[0] == "lower":
                out.append(helpers.all_keys_lower())
            else:
                raise ValueError(f"unknown helper middleware {spec!r}")
        return tuple(out)

    async def setup(self):
        from cashews import Cache, Command

        cls = _classes_get()
        interval = self.cfg["purge"] * TICK
        specs = case_backends(self.case)
        if self.cfg["facade"]:
            cache = Cache()
            scheme = "vlockg" if self.gated else "vlock"
            for b in specs:
                be = cache.setup(f"{scheme}://?size=1000&check_interval={interval}{self.cfg['extra']}",
                                 middlewares=(*self._helper_middlewares(), self._recording_middleware(b["p"])),
                                 prefix=PREFIXES[b["p"]])
                be.vidx = b["p"]
                self.backends.append(be)
            await cache.init()
            names = {"ping": Command.PING, "set_lock": Command.SET_LOCK}
            for b in specs:
                off = b.get("off") or []
                if off == "all":
                    cache.disable(prefix=PREFIXES[b["p"]])
                elif off:
                    cache.disable(*[names[c] for c in off], prefix=PREFIXES[b["p"]])
            self.api = cache
            self.deco = cache.locked
            backend = self.backends[0]
        else:
            import cashews.decorators as decorators

            if specs != [{"p": 0, "off": []}] or self.case.get("mw"):
                raise ValueError("several / disabled backends and middlewares need a facade configuration")
            backend = (cls["gated"] if self.gated else cls["rec"])(size=1000, check_interval=interval)
            await backend.init()
            self.backends.append(backend)
            self.api = backend
            self.deco = lambda prefix="locked", **kw: decorators.locked(backend, prefix=prefix, **kw)
        self.backend = backend
        await asyncio.sleep(0)

    # ---- scripted programs --------------------------------------------------------------------------
    async def _pause(self):
        if self.gated:
            await self.sched.point(("point",))
        else:
            await asyncio.sleep(0)

    async def run_steps(self, steps: list):
        for st in steps:
            op = st[0]
            if op == "sleep":
                await asyncio.sleep(st[1] * TICK)
            elif op == "point":
                await self._pause()
            elif op == "funlock":
                await self.api.unlock(keyname(st[1], st[3] if len(st) > 3 else 0), f"alien-{st[2]}")
            elif op == "probe":
                await self.api.is_locked(keyname(st[1], st[2] if len(st) > 2 else 0))
            elif op == "lock":
                await self.run_section(st[1])
            elif op == "tx":
                await self.run_tx(st)
            elif op == "set":
                task = TASK_ID.get() if self.gated else _TIMED_TASK.get()
                self.log("app_set", v=st[1])
                await self.api.set(f"{PREFIXES[case_backends(self.case)[0]['p']]}data:T{task}", st[1])
            else:
                raise ValueError(f"unknown step {st!r}")

    async def run_tx(self, st: list):
        from cashews import TransactionMode

        if not self.cfg["facade"]:
            raise ValueError("transactions need a facade configuration")
        mode = getattr(TransactionMode, TX_MODES[st[1]])
        body = st[2]
        end = st[3] if len(st) > 3 else "n"
        how = "c"
        entered = False
        try:
            async with self.api.transaction(mode):
                entered = True
                self.log("tx_begin", mode=st[1])
                try:
                    await self.run_steps(body)
                    if end == "e":
                        raise TxAbort("scripted")
                except BaseException:
                    how = "r"
                    raise
        except TxAbort:
            pass
        finally:
            if entered:
                self.log("tx_end", how=how)

    async def consume(self, agen, sec: dict):
        """the consumer of a locked async generator: drains it (default), or stops after n chunks -
        ["aclose", n]: break, then `await agen.aclose()`; ["aclosing", n]: break inside `async with aclosing(agen)`;
        ["abandon", n]: break and drop the last reference (the event loop's asyncgen finalizer closes it; timed runs only:
        the harness then yields a few times so that the finalizer has run before the section is declared left).
        `between` = consumer-side steps after every chunk (a cancellation landing there leaves the generator suspended
        at its yield point)."""
        how, n = (sec.get("consume") or ["drain", 0])[:2]
        between = sec.get("between") or []
        if how == "drain":
            n = 10 ** 6
        if self.gated and (how == "abandon" or between):
            how = "aclosing"          # under the gate scheduler a generator is never left to the finalizer task
        it = [agen]
        agen = None

        async def loop_():
            got = 0
            async for _ in it[0]:
                got += 1
                await self.run_steps(between)
                if got >= n:
                    break

        if how == "aclosing":
            async with contextlib.aclosing(it[0]):
                await loop_()
            return
        try:
            await loop_()
            if how == "aclose":
                await it[0].aclose()
        finally:
            it.clear()
            if how == "abandon" or between:
                interrupted = None
                for _ in range(6):      # the finalizer hook schedules `agen.aclose()` as a task of its own
                    try:
                        await asyncio.sleep(0)
                    except asyncio.CancelledError as exc:     # a cancellation landing on the harness's own wait
                        interrupted = exc
                if interrupted is not None:
                    raise interrupted

    def shared_function(self, sec: dict, deco_prefix: str, ci: float):
        """the decorated function (coroutine or async generator) that every section of this run with the same decorator
        parameters calls; its ttl is a callable of the call's arguments `(k, ticks, sid)` returning the ttl THIS call asks
        for (form "cb": float seconds, "cbtd": a timedelta, None = no expiry)"""
        ident = (sec["via"], deco_prefix, sec["wait"], ci, sec["form"])
        fn = self.shared.get(ident)
        if fn is None:
            run = self
            inner = "td" if sec["form"] == "cbtd" else "f"

            def ttl_of_call(k, ticks, sid, **kwargs):
                return None if ticks is None else memhist.spell(ticks, inner)

            deco = self.deco(ttl=ttl_of_call, key="K{k}", wait=sec["wait"], check_interval=ci, prefix=deco_prefix)
            if sec["via"] == "deco":
                @deco
                async def fn(k, ticks, sid):
                    await run.calls[sid]()
                    return k
            else:
                @deco
                async def fn(k, ticks, sid):
                    inner_gen = run.calls[sid](k)
                    async with contextlib.aclosing(inner_gen):
                        async for chunk in inner_gen:
                            yield chunk
            self.shared[ident] = fn
        return fn

    async def run_section(self, sec: dict):
        from cashews.exceptions import LockedError

        self.sec_counter += 1
        sid = self.sec_counter
        tok = SEC.set(sid)
        ttl = None if sec["ttl"] is None else sec["ttl"] * TICK
        callable_form = (sec.get("form") or "").startswith("cb") and sec["via"] in ("deco", "gen")
        if (sec.get("form") or "").startswith("cb"):
            pass        # a callable ttl (decorators only, see `shared_function`); anywhere else: plain float seconds
        elif sec["ttl"] is not None and sec.get("form") and (self.cfg["facade"] or sec["via"] != "cm"):
            # the ttl as the application would write it (timedelta, int, "1m30s", ...): `ttl_to_seconds` lowers it.
            # (`Memory.lock(key, expire)` on a bare backend takes seconds and never converts.)
            ttl = memhist.spell(sec["ttl"], sec["form"])
        ci = sec.get("ci", 0) * TICK
        run = self
        be = sec.get("be", 0)
        key = keyname(sec["key"], be) if sec["via"] != "clock" else f"lock:cl:K{sec['key']}"
        deco_prefix = PREFIXES[be] + "locked"
        self.log("sec_start", sec=sid, via=sec["via"], key=key, ttl=sec["ttl"], wait=sec["wait"],
                 ci=sec.get("ci", 0), form=sec.get("form"))

        async def body():
            run.log("body_enter", sec=sid)
            how = "n"
            try:
                await run.run_steps(sec.get("body", []))
                if sec.get("end", "n") == "e":
                    raise BodyError("scripted")
                if sec.get("end", "n").startswith("x:"):
                    raise scripted_exception(sec["end"][2:])
            except BaseException as exc:
                if is_scripted(exc):
                    how = sec["end"]          # the body itself ends with an exception of that class
                elif isinstance(exc, asyncio.CancelledError):
                    how = "c"
                else:
                    how = "e"
                raise
            finally:
                run.log("body_exit", sec=sid, how=how)

        outcome = "ok"
        try:
            if sec["via"] == "cm":
                async with self.api.lock(key, expire=ttl, wait=sec["wait"], check_interval=ci):
                    await body()
            elif sec["via"] == "deco" and callable_form:
                # ONE decorated function per (via, prefix, wait, check_interval, form) of the run, its ttl a callable of
                # the call's arguments: successive calls of the same function ask for different ttls
                self.calls[sid] = body
                await self.shared_function(sec, deco_prefix, ci)(sec["key"], sec["ttl"], sid)
            elif sec["via"] == "deco":
                @self.deco(ttl=ttl, key="K{k}", wait=sec["wait"], check_interval=ci, prefix=deco_prefix)
                async def guarded(k):
                    await body()
                    return k

                await guarded(sec["key"])
            elif sec["via"] == "clock":
                # `@cache(ttl, lock=True)`: the cached function runs inside `decorators.locked(key=<same template>)`
                # (lock key `lock:cl:K<k>`, wait=True); a call that finds the result cached takes and releases the lock
                # without running the body.  protected=False: callers contend for the lock instead of sharing one execution
                if not self.cfg["facade"] or be or self.case.get("backends"):
                    raise ValueError("@cache(lock=True) sections need a facade configuration with the single default backend")

                @self.api(ttl=ttl, key="cl:K{k}", lock=True, protected=False)
                async def cached(k):
                    await body()
                    return k

                await cached(sec["key"])
            elif sec["via"] == "gen":
                chunks = sec.get("body", [])

                async def guarded_gen(k):
                    run.log("body_enter", sec=sid)
                    how = "n"
                    try:
                        for i, st in enumerate(chunks):
                            await run.run_steps([st])
                            run.log("gen_yield", sec=sid)        # suspended at the yield point: the consumer has the chunk
                            yield i
                            run.log("gen_resume", sec=sid)
                        if sec.get("end", "n") == "e":
                            raise BodyError("scripted")
                        if sec.get("end", "n").startswith("x:"):
                            raise scripted_exception(sec["end"][2:])
                    except GeneratorExit:
                        how = "g"         # the consumer stopped iterating: closed at the yield point
                        raise
                    except BaseException as exc:
                        if is_scripted(exc):
                            how = sec["end"]
                        elif isinstance(exc, asyncio.CancelledError):
                            how = "c"
                        else:
                            how = "e"
                        raise
                    finally:
                        run.log("body_exit", sec=sid, how=how)

                if callable_form:
                    self.calls[sid] = guarded_gen
                    await self.consume(self.shared_function(sec, deco_prefix, ci)(sec["key"], sec["ttl"], sid), sec)
                else:
                    decorated = self.deco(ttl=ttl, key="K{k}", wait=sec["wait"], check_interval=ci, prefix=deco_prefix)(guarded_gen)
                    await self.consume(decorated(sec["key"]), sec)
            else:
                raise ValueError(f"unknown via {sec['via']!r}")
        except Livelock:
            raise
        except BaseException as exc:
            if isinstance(exc, BodyError) or is_scripted(exc):
                outcome = "exc"           # the scripted end of the body (of whatever class) came out of the section
            elif isinstance(exc, LockedError):
                outcome = "locked"
            elif isinstance(exc, asyncio.CancelledError):
                outcome = "cancelled"
                raise
            elif isinstance(exc, Exception):      # anything else the code under test raised
                outcome = "other:" + type(exc).__name__
            else:
                raise
        finally:
            self.log("outcome", sec=sid, outcome=outcome)
            SEC.reset(tok)

    # ---- the two modes ------------------------------------------------------------------------------
    async def main(self):
        global _current
        _current = self
        memhist._ACTIVE = self
        self.main_task = asyncio.current_task()
        loop = asyncio.get_running_loop()
        try:
            if self.gated:
                loop.SPIN = 10 ** 9       # the gate scheduler decides when time passes, not the spin rule
                self.sched = LSched(self, self.case.get("schedule", []))
            await self.setup()
            progs = self.case["tasks"]
            if self.gated:
                programs = {i: (lambda p=p: self.run_steps(p)) for i, p in enumerate(progs)}
                try:
                    await self.sched.run(programs)
                except RuntimeError as exc:
                    self.livelock = str(exc)
            else:
                starts = self.case.get("starts", [0] * len(progs))

                async def task_main(i, p):
                    _TIMED_TASK.set(i)
                    if starts[i]:
                        await asyncio.sleep(starts[i] * TICK)
                    await self.run_steps(p)

                tasks = [loop.create_task(task_main(i, p)) for i, p in enumerate(progs)]

                async def canceller(i, at):
                    await asyncio.sleep(at * TICK)
                    if not tasks[i].done():
                        self.log("cancel", task=i)
                        tasks[i].cancel()

                cancellers = [loop.create_task(canceller(i, at)) for i, at in self.case.get("cancels", [])]
                done, pending = await asyncio.wait(tasks, timeout=self.case.get("horizon", 400) * TICK)
                if pending:
                    self.log("horizon", pending=sorted(tasks.index(t) for t in pending))
                for t in list(pending) + cancellers:
                    t.cancel()
                await asyncio.gather(*tasks, *cancellers, return_exceptions=True)
        except Livelock as exc:
            self.livelock = str(exc)
        finally:
            # whatever still runs is cancelled by the teardown: its clean-up is not part of the observed run
            self.torn = True
            memhist._ACTIVE = None
            for b in self.backends:
                try:
                    await b.close()
                except Exception:
                    pass
            _current = None
        return self.events


_TIMED_TASK: contextvars.ContextVar[Any] = contextvars.ContextVar("verif_lock_task", default=None)


def execute(case: dict) -> tuple[list[dict], dict]:
    """run one case on the real code; returns (events, info)"""
    run = Run(case)
    try:
        vtime.run(run.main)
    except Livelock as exc:       # raised inside a task and re-raised by the loop
        run.livelock = str(exc)
    global _current
    _current = None
    info = {
        "livelock": run.livelock,
        "branching": list(run.sched.branching) if run.sched else [],
        "skipped_cancels": run.sched.skipped_cancels if run.sched else 0,
        "sched_trace": list(run.sched.trace) if run.sched else [],
        "choices": list(run.sched.choices) if run.sched else [],
    }
    return run.events, info
