"""Scheduler for the single-flight check (C07), built on harness/sched.py.

Differences from the base `Sched.run`:
  * the schedulable entities are *callers* ("c", i) parked at their start and *executions* ("x", i) parked at
    a scripted suspension point of the wrapped body (the body re-labels its task, see props/c07.py), and the
    run goes on until every caller is done AND no execution is parked any more - an execution whose waiters
    were all cancelled must still be driven to its end;
  * an entry can release a *burst* of parked entities in one go (they then run in release order inside the
    same event-loop iteration - the `asyncio.gather` situation);
  * after every entry the loop is brought to quiescence and `snapshot()` is recorded, so the observations
    line up one-to-one with the effective trace;
  * TIME passes only when the schedule says so: a ("tick", d) entry advances the virtual clock by d ticks while
    every body stays suspended where it is (the run's event loop never lets time pass by itself, see sfimpl.SfLoop),
    so the age of an execution in flight when a caller arrives is under the schedule's control.

Schedule entries:
    int i                 choice point (for `enumerate_schedules`): with p parked entities, q cancellable
                          callers (only while the cancel budget lasts) and r tick sizes (only while the tick budget
                          lasts) i < p releases the i-th parked entity, p <= i < p+q cancels the (i-p)-th cancellable
                          caller, p+q <= i < p+q+r lets tick_sizes[i-p-q] ticks pass
    ("go", [ids])         release these entities together, in this order (those not parked are skipped); with
                          `split_bursts` (cases in which `early` recalculates) the parked bodies of the entry are released
                          first and the callers in a step of their own: a new execution takes its first step - the cache
                          lookup - one loop iteration after its caller's, and how that interleaves with the done-callbacks
                          of a recalculation ending in the same iteration is below the model's granularity
    ("cancel", c)         cancel caller c (skipped if it is already done)
    ("tick", d)           d ticks of virtual time pass (d >= 1)
Exhausted schedule: release the lowest parked entity.
Effective trace (`self.eff`): ("go", [ids]) | ("cancel", c) | ("tick", d), exactly what was done.
"""
from __future__ import annotations

import asyncio
from typing import Any, Awaitable, Callable

from . import vtime
from .sched import TASK_ID, Sched


def _tid(x):
    return tuple(x) if isinstance(x, (list, tuple)) else x


class SfSched(Sched):
    def __init__(self, schedule=(), cancel_budget: int = 0, tick_budget: int = 0, tick_sizes=()):
        super().__init__(schedule)
        self.cancel_budget = cancel_budget
        self.tick_budget = tick_budget
        self.tick_sizes = [int(d) for d in tick_sizes if int(d) >= 1]
        self.split_bursts = False
        self.eff: list[tuple] = []
        self.obs: list[Any] = []
        self.stuck = False
        self.callers: dict[int, asyncio.Task] = {}
        self.cancelled_by_harness: list[int] = []
        self.busy_waits = 0
        self.log = None                     # optional callback: log(("cancel", c)) into the caller's event list

    QUIESCE_SPINS = 400

    async def _quiesce(self):
        """like Sched._quiesce, but a task that busy-waits with sleep(0) (cashews' lock wait loop with
        check_interval=0 - only reachable here when two executions exist for one key, i.e. when single-flight is
        already broken) must not hang the run: after QUIESCE_SPINS turns the scheduler goes on and notes it"""
        loop = asyncio.get_running_loop()
        for _ in range(self.QUIESCE_SPINS):
            await asyncio.sleep(0)
            if not loop._ready:
                return
        self.busy_waits += 1

    def _release(self, ids):
        done = []
        for tid in ids:
            ent = self.parked.pop(tid, None)
            if ent is None:
                continue
            fut, _label = ent
            if not fut.done():
                fut.set_result(None)
                done.append(tid)
        return done

    def _cancellable(self):
        return [c for c, t in sorted(self.callers.items()) if not t.done()]

    async def run_sf(self, programs: dict[int, Callable[[], Awaitable]], snapshot: Callable[[], Any], deferred=()):
        """`deferred`: callers that the scheduler does not start itself - `self.spawn(cid)` starts them from wherever it is
        called (a wrapped body: the caller then is a task SPAWNED BY THAT BODY, with a copy of its context), parked at
        their start like everybody else; a deferred caller nobody spawns does not exist"""
        loop = asyncio.get_running_loop()
        self._wake = asyncio.Event()

        def starter(cid, fn):
            async def body():
                TASK_ID.set(("c", cid))
                await self.point(("start",))
                return await fn()
            return body

        def spawn(cid):
            if cid in programs and cid not in self.callers:
                self.callers[cid] = loop.create_task(starter(cid, programs[cid])())
                return True
            return False

        self.spawn = spawn
        for cid, fn in programs.items():
            if cid not in deferred:
                self.callers[cid] = loop.create_task(starter(cid, fn)())
        steps = 0
        while True:
            await self._quiesce()
            if self.eff and len(self.obs) < len(self.eff):
                self.obs.append(snapshot())
            live = [c for c, t in self.callers.items() if not t.done()]
            if not live and not self.parked:
                break
            steps += 1
            if steps > self.max_steps:
                raise RuntimeError("sfsched: step budget exhausted")
            ids = sorted(self.parked)
            if self.pos < len(self.schedule):
                e = self.schedule[self.pos]
                self.pos += 1
            else:
                e = 0
            if isinstance(e, int):
                canc = self._cancellable() if self.cancel_budget > 0 else []
                ticks = self.tick_sizes if self.tick_budget > 0 else []
                n = len(ids) + len(canc) + len(ticks)
                if n == 0:
                    self.stuck = True          # live callers, nothing to release, nothing to cancel
                    break
                if not ids and not canc:
                    self.stuck = True
                    break
                if not ids:
                    # only cancellations possible although callers are live: they wait for something that
                    # will never come (possible only when the code under test lost a wake-up)
                    self.stuck = True
                    break
                self.branching.append(n)
                i = e % n
                if i < len(ids):
                    e = ("go", [ids[i]])
                elif i < len(ids) + len(canc):
                    e = ("cancel", canc[i - len(ids)])
                else:
                    self.tick_budget -= 1
                    e = ("tick", ticks[i - len(ids) - len(canc)])
            kind = e[0]
            if kind == "tick":
                d = int(e[1])
                if d < 1:
                    continue
                vtime.CLOCK.advance(d)
                self.eff.append(("tick", d))
                if self.log is not None:
                    self.log(("tick", d))
                continue
            if kind == "cancel":
                c = e[1]
                t = self.callers.get(c)
                if t is None or t.done():
                    continue
                if self.cancel_budget > 0:
                    self.cancel_budget -= 1
                self.cancelled_by_harness.append(c)
                self.eff.append(("cancel", c))
                if self.log is not None:
                    self.log(("cancel", c))
                t.cancel()
                continue
            if kind == "go":
                if not ids and live:
                    self.stuck = True
                    break
                want = [_tid(x) for x in e[1]]
                if self.split_bursts:
                    bodies = [t for t in want if t[0] == "x" and t in self.parked]
                    rest = [t for t in want if t[0] != "x" and t in self.parked]
                    if bodies and rest:
                        # bodies now, the callers as the next entry
                        self.schedule = list(self.schedule[:self.pos]) + [("go", rest)] + list(self.schedule[self.pos:])
                        want = bodies
                released = self._release(want)
                if released:
                    self.eff.append(("go", released))
                    if self.log is not None:
                        self.log(("go", tuple(released)))
                continue
            raise RuntimeError(f"sfsched: bad schedule entry {e!r}")
        return self.eff, self.obs
