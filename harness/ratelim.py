"""C15 helpers: run call histories / interleavings of `rate_limit`, `slice_rate_limit`, `circuit_breaker`
on the real code (public `Cache` facade, `mem://`) under the virtual clock; generators; canonical traces.

A sequential case:
    {"mode": "seq", "kind": "fixed"|"slide"|"breaker", "p": {...params in ticks...}, "style": {...glue...},
     "calls": [[dt, oc], ...]}           dt = ticks waited before the call, oc in ok|fail|other
A concurrent case:
    {"mode": "conc", "kind": ..., "p": ..., "tasks": [oc, ...], "ticks": [dt, ...], "schedule": [choice, ...]}
Times are ticks of 1/8 s.  Canonical observations per call:
    limiter:  "<ts>:<run|rej>"            breaker:  "<ts>:<open|ok|fail|other>:<T|F>"  (T/F = ':open' live afterwards)
anything else the code did (function executed *and* rejected, no action taken, foreign exception) is `bad:<what>`.
"""
from __future__ import annotations

import asyncio

from . import vtime
from .core import HarnessError
from .memhist import DAY, HOUR, spell
from .sched import Sched, gated
from .vtime import CLOCK, BASE, TICK

KINDS = ("fixed", "slide", "breaker")
ACTION_TOKEN = "ACTION-TAKEN"


class ScriptedFail(ValueError):
    """the wrapped function's scripted failure (an instance of the breaker's `exceptions`)"""


class ScriptedOther(KeyError):
    """a scripted exception outside the breaker's `exceptions`"""


# style["form"] -> memhist.spell form: how a period / ttl of so many ticks is written down for the decorator
# (int when whole seconds, float, timedelta - `days` field non-zero from one day on -, '90s', '1d1m30s', '1d0h1m30s',
# ' 1D1M30S ', bare digits).  The model gets the ticks; the two sides never share a conversion.
SPELL = {"int": "i", "float": "f", "timedelta": "td", "str": "ss", "strc": "s", "str4": "s4", "strU": "sU", "digits": "sn"}


def secs(ticks: int, form: str):
    """a period/ttl of `ticks` eighths of a second in one of the spellings the facade accepts (a form that cannot
    express a fraction of a second falls back to the float)"""
    return spell(ticks, SPELL[form])


def case_line(kind: str, p: dict) -> str:
    if kind == "fixed":
        return f"case fixed {p['limit']} {p['period']} {'-' if p.get('ttl') is None else p['ttl']}"
    if kind == "slide":
        return f"case slide {p['limit']} {p['period']}"
    return f"case breaker {p['rate']} {p['period']} {p['ttl']} {p['min_calls']}"


# --------------------------------------------------------------------------------------------------
# building the decorated function through the public facade


CALL_ARGS = ("caller-7",)       # what the decorated function is called with when a period / ttl is a callable


def is_callable(style: dict, which: str) -> bool:
    c = style.get("callable")
    return bool(c) and (c is True or c == "both" or c == which)


def call_args(case: dict) -> tuple:
    return CALL_ARGS if case.get("style", {}).get("callable") and case["kind"] != "breaker" else ()


def decorate(cache, kind: str, p: dict, style: dict, body):
    form = style.get("form", "int")
    custom = style.get("action") == "custom"

    def action(*a, **k):
        return ACTION_TOKEN

    def arg(ticks, which="period"):
        """the duration as written; `style["callable"]` (limiters only; "period" / "ttl" / "both", True = both): that
        argument is a callable of the call's arguments returning the spelled duration (`ttl_to_seconds(...,
        with_callable=True)` calls it on every call and converts what it returns) - every combination of plain and
        callable period / ttl.  The callable insists on being given the arguments of the call."""
        obj = secs(ticks, form)
        if not is_callable(style, which):
            return obj

        def dynamic(*a, **k):
            if a != CALL_ARGS:
                raise AssertionError(f"the {which} callable was called with {a!r}, not with the arguments of the call")
            return obj

        return dynamic

    if kind == "fixed":
        kw = dict(limit=p["limit"], period=arg(p["period"]))
        if p.get("ttl") is not None:
            kw["ttl"] = arg(p["ttl"], "ttl")
        if custom:
            kw["action"] = action
        if style.get("direct"):
            from cashews.decorators.rate import rate_limit
            return rate_limit(cache, key="lim", **kw)(body)
        return cache.rate_limit(key="lim", **kw)(body)
    if kind == "slide":
        kw = dict(limit=p["limit"], period=arg(p["period"]))
        if custom:
            kw["action"] = action
        if style.get("direct"):
            from cashews.decorators.rate_slide import slice_rate_limit
            return slice_rate_limit(cache, key="lim", **kw)(body)
        return cache.slice_rate_limit(key="lim", **kw)(body)
    kw = dict(errors_rate=p["rate"], period=secs(p["period"], form), ttl=secs(p["ttl"], form), min_calls=p["min_calls"])
    if style.get("exc") == "value":
        kw["exceptions"] = (ScriptedFail,)
    return cache.circuit_breaker(key="brk", **kw)(body)


def classify(kind: str, custom: bool, executed: bool, result, exc) -> str:
    """map what one call did to run / rej / open / ok / fail / other / bad:*"""
    from cashews.exceptions import CircuitBreakerOpen, RateLimitError

    if exc is None:
        if executed and result == "RESULT":
            return "run" if kind != "breaker" else "ok"
        if not executed and kind != "breaker" and custom and result == ACTION_TOKEN:
            return "rej"
        return f"bad:returned-{result!r}-executed-{executed}"
    if isinstance(exc, ScriptedFail):
        return ("run" if kind != "breaker" else "fail") if executed else "bad:scripted-exception-without-execution"
    if isinstance(exc, ScriptedOther):
        return ("run" if kind != "breaker" else "other") if executed else "bad:scripted-exception-without-execution"
    if isinstance(exc, RateLimitError) and kind != "breaker":
        if executed:
            return "bad:rejected-but-executed"
        return "rej" if not custom else "bad:default-error-instead-of-action"
    if isinstance(exc, CircuitBreakerOpen) and kind == "breaker":
        return "open" if not executed else "bad:rejected-but-executed"
    return f"bad:{type(exc).__name__}"


def raise_for(oc: str):
    if oc == "fail":
        raise ScriptedFail("scripted")
    if oc == "other":
        raise ScriptedOther("scripted")
    return "RESULT"


# --------------------------------------------------------------------------------------------------
# sequential histories


def run_seq(case: dict) -> list[str]:
    kind, p, style = case["kind"], case["p"], case.get("style", {})
    purge = bool(style.get("purge"))
    custom = style.get("action") == "custom"

    async def go():
        from cashews import Cache

        cache = Cache()
        cache.setup("mem://?check_interval=%s" % (1 if purge else 0))
        await cache.init()
        cur = {"oc": "ok", "n": 0}

        async def body(*a):
            cur["n"] += 1
            return raise_for(cur["oc"])

        body.__module__ = "verif"
        f = decorate(cache, kind, p, style, body)
        out = []
        try:
            for dt, oc in case["calls"]:
                if purge:
                    await vtime.vsleep(dt)      # the real purge task gets its turns
                else:
                    CLOCK.advance(dt)           # expired entries stay in the store unpurged
                ts = CLOCK.ticks()
                cur["oc"] = oc
                before = cur["n"]
                res = exc = None
                try:
                    res = await f(*call_args(case))
                except Exception as e:          # noqa: BLE001 - classified below
                    exc = e
                if CLOCK.ticks() != ts:
                    raise HarnessError("virtual time moved during a call")
                what = classify(kind, custom, cur["n"] == before + 1, res, exc)
                if kind == "breaker":
                    is_open = bool([k async for k in cache.scan("*:open")])
                    out.append(f"{ts}:{what}:{'T' if is_open else 'F'}")
                else:
                    out.append(f"{ts}:{what}")
        finally:
            await cache.close()
        return out

    return vtime.run(go)


# --------------------------------------------------------------------------------------------------
# interleavings under the gate scheduler

RECORDED = ("incr", "expire", "slice_incr", "is_locked", "exists", "set_lock")


class NamedSched(Sched):
    """schedule entries may also name the task to release: "t<i>" (caller i) or "c" (the clock task)"""

    clock_id = None

    def _next_choice(self, n):
        if self.pos < len(self.schedule):
            e = self.schedule[self.pos]
            self.pos += 1
            if isinstance(e, str):
                ids = sorted(self.parked, key=repr)
                tid = self.clock_id if e == "c" else int(e[1:])
                return ids.index(tid) if tid in ids else 0
            return e
        return 0


_current: dict = {"sched": None, "log": None}
_gated_cls = None


def _gated_memory():
    """Memory subclass that (a) records command results, (b) parks every outermost command at the gate;
    registered once under the alias `c15gate` so that it is reached through `Cache.setup`."""
    global _gated_cls
    if _gated_cls is not None:
        return _gated_cls
    from cashews.backends.memory import Memory
    from cashews.wrapper.backend_settings import register_backend

    def tick_of(x) -> int:
        return round((x - BASE) / TICK)

    class Rec(Memory):
        async def incr(self, key, value=1, expire=None):
            try:
                r = await super().incr(key, value, expire)
            except Exception:                                   # noqa: BLE001
                _current["log"].append("incr:E")
                raise
            _current["log"].append(f"incr:n={r}")
            return r

        async def expire(self, key, timeout):
            r = await super().expire(key, timeout)
            _current["log"].append("expire")
            return r

        async def slice_incr(self, key, start, end, maxvalue, expire=None):
            r = await super().slice_incr(key, start, end, maxvalue, expire)
            k = 1 if key.endswith(":total") else 2 if key.endswith(":fails") else 0
            _current["log"].append(f"slice:{k}:{tick_of(end)}:{r}")
            return r

        async def is_locked(self, key, wait=None, step=0.1):
            r = await super().is_locked(key, wait, step)
            _current["log"].append(f"is_locked:{'T' if r else 'F'}")
            return r

        async def exists(self, key):
            r = await super().exists(key)
            _current["log"].append(f"exists:{'T' if r else 'F'}")
            return r

        async def set_lock(self, key, value, expire):
            r = await super().set_lock(key, value, expire)
            _current["log"].append(f"set_lock:{'T' if r else 'F'}")
            return r

    _gated_cls = gated(Rec, lambda: _current["sched"], label=lambda name, a, k: (name,))
    register_backend("c15gate", _gated_cls)
    return _gated_cls


def run_conc(case: dict, schedule=None):
    """-> (steps, results, branching): steps = [("step", i, label) | ("tick", dt)], results[i] = (executed, what)"""
    kind, p, style = case["kind"], case["p"], case.get("style", {})
    ocs = case["tasks"]
    n = len(ocs)
    clock_id = n
    custom = style.get("action") == "custom"
    _gated_memory()
    sched = NamedSched(case["schedule"] if schedule is None else schedule)
    sched.clock_id = clock_id
    log: list[str] = []
    _current["sched"], _current["log"] = sched, log
    executed = [False] * n

    async def go():
        from cashews import Cache

        cache = Cache()
        cache.setup("c15gate://?check_interval=0")
        await cache.init()
        from .sched import TASK_ID

        async def body(*a):
            i = TASK_ID.get()
            await sched.point(("body",))
            executed[i] = True
            return raise_for(ocs[i])

        body.__module__ = "verif"
        f = decorate(cache, kind, p, style, body)

        def prog(i):
            async def one():
                res = exc = None
                try:
                    res = await f(*call_args(case))
                except Exception as e:          # noqa: BLE001
                    exc = e
                return classify(kind, custom, executed[i], res, exc)
            return one

        async def clock():
            for dt in case.get("ticks", []):
                await sched.point(("tick", dt))
                CLOCK.advance(dt)

        programs = {i: prog(i) for i in range(n)}
        if case.get("ticks"):
            programs[clock_id] = clock
        try:
            return await sched.run(programs)
        finally:
            await cache.close()

    outcomes = vtime.run(go)
    steps = []
    li = 0
    for ev in sched.trace:
        if ev[0] == "time":
            raise HarnessError("scheduler let time pass on its own in a C15 interleaving")
        if ev[0] != "run":
            continue
        _, tid, label = ev
        if tid == clock_id:
            if label[0] == "tick":          # (the clock task's own "start" release is not a step of the model)
                steps.append(("tick", label[1]))
        elif label[0] not in RECORDED:
            # the caller's start, the body's suspension point, or a backend command the decorators are not known
            # to issue (it then shows up as a step the model cannot match)
            steps.append(("step", tid, label[0]))
        else:
            if li >= len(log):
                raise HarnessError("gate released a command that left no record")
            steps.append(("step", tid, log[li]))
            li += 1
    if li != len(log):
        raise HarnessError("recorded commands do not match the released gates")
    results = []
    for i in range(n):
        out = outcomes.get(i)
        if not out or out[0] != "returned":
            raise HarnessError(f"managed task {i} did not return: {out}")
        results.append((executed[i], out[1]))
    return steps, results, list(sched.branching)


# --------------------------------------------------------------------------------------------------
# generators (every random choice comes from the rng handed in)

LIMITS = (1, 2, 3)
PERIODS = (8, 16, 32)
# long periods / ttls (90 s ... a week; with and without a seconds part below the day, one with a fraction of a second):
# only such values make the spellings differ in more than their type - a timedelta has a non-zero `days` field, the
# composite strings use the d / h / m units.  The virtual clock crosses them for free (purge task off).
LONG_PERIODS = (8 * 90, HOUR, DAY - 8, DAY, DAY + 8, DAY + 8 * 90, DAY + HOUR, 36 * HOUR, 2 * DAY, 2 * DAY + 4, 7 * DAY)
LONG_SHARE = 0.3
RATES = (1, 34, 50, 99)          # errors_rate = 100 is refused by the decorator's own `assert 0 < errors_rate < 100`
MIN_CALLS = (1, 2, 3)
FORMS = ("int", "float", "str", "timedelta", "timedelta", "strc", "str4", "strU", "digits")


def gen_params(rng, kind: str, long: bool = False) -> dict:
    period = rng.choice(LONG_PERIODS if long else PERIODS)
    # a ban / open ttl from the same family: a long one next to a short period and the other way round as well
    other = rng.choice(LONG_PERIODS) if long and rng.random() < 0.5 else None
    if kind == "fixed":
        ttl = rng.choice([None, period // 2, period, period * 2, period + 1, 1] + ([other] if other else []))
        return {"limit": rng.choice(LIMITS), "period": period, "ttl": ttl}
    if kind == "slide":
        return {"limit": rng.choice(LIMITS), "period": period}
    return {"rate": rng.choice(RATES) if rng.random() < 0.5 else rng.randint(1, 99), "period": period, "ttl": rng.choice([period // 2, period, period * 2, 4] + ([other] if other else [])),
            "min_calls": rng.choice(MIN_CALLS)}


def component_marks(*durations: int) -> list[int]:
    """waits that tell a long duration from a mis-converted one: just past what is left of it when a unit of its
    (days, hours, minutes, seconds) decomposition is dropped or kept alone, while still inside the real duration"""
    out = []
    for d in durations:
        if d and d >= 8 * 60:
            for unit in (DAY, HOUR, 8 * 60):
                for part in (d % unit, d - d % unit):
                    if 0 < part < d:
                        out += [part + 1, part + 8]
            out += [d // 2, d // 8 + 1]
    return [m for m in out if m > 0]


def gen_style(rng, kind: str, long: bool = False) -> dict:
    # purge task on: every purge tick of a wait is a turn of the real loop - not with waits of hours and days
    st = {"form": rng.choice(FORMS), "purge": rng.random() < 0.3 and not long}
    if kind != "breaker":
        st["action"] = rng.choice(["default", "custom"])
        st["direct"] = rng.random() < 0.15
        # every combination of plain and callable period / ttl (the sliding limiter has a period only)
        st["callable"] = rng.choice(["period", "ttl", "both"]) if rng.random() < 0.2 else False
        if kind == "slide" and st["callable"]:
            st["callable"] = "period"
    else:
        st["exc"] = rng.choice(["default", "value"])
    return st


def gen_calls(rng, kind: str, p: dict, style: dict, maxlen: int, strict: bool) -> list:
    """waits clustered around the boundaries that matter: 0/1 tick bursts, period-1, period, period+1,
    the ban/open ttl -1/0/+1, and long gaps"""
    period = p["period"]
    ttl = p.get("ttl") or period
    marks = [period - 1, period, period + 1, ttl - 1, ttl, ttl + 1, period // 2, 2 * period + 1, 3 * max(period, ttl)]
    marks = [m for m in marks if m > 0]
    extra = component_marks(period, ttl)
    if extra:
        marks += rng.sample(extra, min(len(extra), 6))
    n = rng.randint(1, maxlen)
    calls = []
    pending = None                  # ticks still to wait to land exactly on a boundary seen from an earlier call
    for i in range(n):
        r = rng.random()
        if r < 0.45:
            dt = rng.choice([1, 1, 1, 2, 3]) if strict or rng.random() < 0.7 else 0
        elif r < 0.85:
            dt = rng.choice(marks)
            if pending is not None and rng.random() < 0.5 and pending > 0:
                dt = pending
        else:
            dt = rng.randint(1, 3 * period)
        if strict and i > 0 and dt == 0:
            dt = 1
        # remember how far the next-but-one call has to wait to be exactly one period / ttl after this one
        pending = rng.choice([period, ttl, period + 1, max(1, period - 1)]) - rng.choice([1, 2, 3]) if rng.random() < 0.5 else None
        if kind == "breaker":
            ocs = ["ok", "fail", "fail"] + (["other"] if style.get("exc") == "value" else [])
            oc = rng.choice(ocs)
        else:
            oc = rng.choice(["ok", "ok", "ok", "fail"])
        calls.append([dt, oc])
    return calls


def gen_breaker_boundary_case(rng) -> dict:
    """a breaker history that puts the trip rule on its edge: `total` calls one tick apart inside one period, `fails`
    of them failing, the last one failing; `errors_rate` is drawn from 1..99 right at the exact share 100*fails/total:
    its floor, its ceiling, the nearest integer, one below / above.  With `min_calls = total` only the last call can
    trip, so the decision is taken on exactly (total, fails); otherwise earlier failing calls decide on the running
    counts as well.  (A share that is not a whole percent - 2 of 3, 1 of 6, 3 of 7 - tells the exact comparison
    `fails * 100 >= errors_rate * total` from one made on a rounded or truncated percentage.)"""
    period = rng.choice([16, 32, 32, 64])
    total = rng.randint(2, min(14, period - 2))
    fails = rng.randint(1, total)
    share = 100 * fails / total
    lo, hi = int(share), -(-100 * fails // total)
    rate = rng.choice([lo, hi, round(share), int(share + 0.5), lo - 1, hi + 1, lo, hi])
    rate = min(99, max(1, rate))
    ocs = ["fail"] * (fails - 1) + ["ok"] * (total - fails)
    rng.shuffle(ocs)
    ocs.append("fail")
    calls = [[rng.choice([0, 1, 3]) if i == 0 else 1, oc] for i, oc in enumerate(ocs)]
    # what happens next: still inside the open ttl, at its end, after it
    ttl = rng.choice([8, 16, period])
    for dt in rng.sample([1, ttl - 1, ttl, ttl + 1, 2], rng.randint(0, 3)):
        calls.append([max(1, dt), rng.choice(["ok", "fail"])])
    style = {"form": rng.choice(FORMS), "purge": False, "exc": rng.choice(["default", "value"])}
    return {"mode": "seq", "kind": "breaker", "style": style, "calls": calls,
            "p": {"rate": rate, "period": period, "ttl": ttl, "min_calls": rng.choice([1, 2, total, total, total])}}


def gen_seq_case(rng, kind: str, maxlen: int = 24) -> dict:
    if kind == "breaker" and rng.random() < 0.4:
        return gen_breaker_boundary_case(rng)
    long = rng.random() < LONG_SHARE
    p = gen_params(rng, kind, long)
    style = gen_style(rng, kind, long)
    if kind == "fixed" and style.get("callable") in ("ttl", "both") and p["ttl"] is None:
        p["ttl"] = rng.choice([p["period"] // 2, p["period"], p["period"] * 2, p["period"] + 1])      # an explicit ban to be callable
    strict = kind != "fixed" or rng.random() < 0.5
    return {"mode": "seq", "kind": kind, "p": p, "style": style,
            "calls": gen_calls(rng, kind, p, style, maxlen, strict)}


def gen_conc_case(rng, kind: str) -> dict:
    long = rng.random() < LONG_SHARE
    p = gen_params(rng, kind, long)
    ntasks = rng.choice([2, 2, 3])
    if kind == "breaker":
        ocs = [rng.choice(["fail", "fail", "ok"]) for _ in range(ntasks)]
        p["min_calls"] = rng.choice([1, 2])
    else:
        ocs = [rng.choice(["ok", "ok", "fail"]) for _ in range(ntasks)]
        p["limit"] = rng.choice([1, 1, 2])
    period = p["period"]
    ttl = p.get("ttl") or period
    ticks = [rng.choice([1, 1, period - 1, period, ttl, period + 1] + component_marks(period, ttl)[:6]) for _ in range(rng.choice([0, 1, 2, 3]))]
    schedule = [rng.randint(0, 3) for _ in range(40)]
    form = rng.choice(FORMS)
    style = {"form": form, "action": rng.choice(["default", "custom"])} if kind != "breaker" else {"form": form, "exc": "default"}
    if kind != "breaker" and rng.random() < 0.2:
        style["callable"] = "period" if kind == "slide" else rng.choice(["period", "ttl", "both"])
        if kind == "fixed" and style["callable"] != "period" and p["ttl"] is None:
            p["ttl"] = rng.choice([p["period"] // 2, p["period"], p["period"] * 2])
    return {"mode": "conc", "kind": kind, "p": p, "style": style, "tasks": ocs, "ticks": ticks, "schedule": schedule}
