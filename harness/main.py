"""Entry point: python -m harness.main <Cxx> [--tier quick|thorough] [--replay FILE]"""
from __future__ import annotations

import argparse
import importlib
import os
import sys
import traceback

from . import vtime  # noqa: F401  (must be imported before cashews)
from .core import Check, HarnessError


def main() -> int:
    ap = argparse.ArgumentParser()
    ap.add_argument("prop")
    ap.add_argument("--tier", default=os.environ.get("VERIF_TIER", "quick"), choices=["quick", "thorough"])
    ap.add_argument("--replay", default=None)
    ap.add_argument("--no-proof", action="store_true", help="skip the proof stage (development only; not used by MANIFEST commands)")
    args = ap.parse_args()
    seed = int(os.environ.get("VERIF_SEED", "0") or 0)
    prop = args.prop.upper()
    try:
        mod = importlib.import_module(f"harness.props.{prop.lower()}")
    except ModuleNotFoundError as exc:
        print(f"no check for {prop}: {exc}", file=sys.stderr)
        return 2
    chk = Check(prop, args.tier, seed)
    chk.skip_proof = args.no_proof
    try:
        vtime.canary()
        if args.replay:
            return mod.replay(chk, args.replay)
        return mod.run(chk)
    except HarnessError as exc:
        print(f"HARNESS-ERROR {prop}: {exc}", file=sys.stderr)
        return 2
    except SystemExit:
        raise
    except Exception:
        traceback.print_exc()
        print(f"HARNESS-ERROR {prop}: unexpected exception in the harness", file=sys.stderr)
        return 2


if __name__ == "__main__":
    sys.exit(main())
