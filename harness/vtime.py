"""Virtual time for the cashews harness.

Importing this module (before `cashews`) replaces time.time / time.monotonic / time.perf_counter and
`datetime.datetime` (by a subclass whose now()/utcnow() read the virtual clock), so that every clock read
inside cashews - however it is spelled - observes CLOCK.  1 tick = 1/8 s, base 1000.0: all sums and
differences of such instants are exact in binary floating point.

`VLoop` is an asyncio event loop whose time() is the same clock: when nothing is ready it jumps to the
earliest timer; a sleep(0) spin (64 consecutive non-idle iterations with a timer pending) lets one tick pass.
"""
from __future__ import annotations

import asyncio
import datetime as _dt
import heapq
import selectors
import time as _time

REAL_TIME = _time.time
REAL_MONOTONIC = _time.monotonic
REAL_PERF = _time.perf_counter

TICK = 0.125
BASE = 1000.0


class _Clock:
    def __init__(self):
        self.t = BASE

    def reset(self):
        self.t = BASE

    def now(self) -> float:
        return self.t

    def ticks(self) -> int:
        return round((self.t - BASE) / TICK)

    def advance(self, ticks: int):
        self.t += ticks * TICK


CLOCK = _Clock()

_time.time = CLOCK.now
_time.monotonic = CLOCK.now
_time.perf_counter = CLOCK.now

_RealDatetime = _dt.datetime


class VDatetime(_RealDatetime):
    @classmethod
    def now(cls, tz=None):
        return _RealDatetime.fromtimestamp(CLOCK.t, tz)

    @classmethod
    def utcnow(cls):
        return _RealDatetime.fromtimestamp(CLOCK.t, _dt.timezone.utc).replace(tzinfo=None)


_dt.datetime = VDatetime


class VLoop(asyncio.SelectorEventLoop):
    SPIN = 64

    def __init__(self):
        super().__init__(selectors.SelectSelector())
        self._spin = 0

    def time(self):
        return CLOCK.t

    def _run_once(self):
        sched = self._scheduled
        while sched and sched[0]._cancelled:
            self._timer_cancelled_count -= 1
            handle = heapq.heappop(sched)
            handle._scheduled = False
        if sched:
            if not self._ready:
                self._spin = 0
                if sched[0]._when > CLOCK.t:
                    CLOCK.t = sched[0]._when
            else:
                self._spin += 1
                if self._spin >= self.SPIN:
                    self._spin = 0
                    CLOCK.t += TICK
        else:
            self._spin = 0
        super()._run_once()


def run(coro_fn, *args, reset=True, **kwargs):
    """Run `coro_fn(*args, **kwargs)` to completion on a fresh virtual loop (clock reset to BASE)."""
    if reset:
        CLOCK.reset()
    loop = VLoop()
    asyncio.set_event_loop(loop)
    try:
        return loop.run_until_complete(coro_fn(*args, **kwargs))
    finally:
        try:
            pending = [t for t in asyncio.all_tasks(loop) if not t.done()]
            for t in pending:
                t.cancel()
            if pending:
                loop.run_until_complete(asyncio.gather(*pending, return_exceptions=True))
        finally:
            asyncio.set_event_loop(None)
            loop.close()


async def vsleep(ticks: int):
    """Let `ticks` of virtual time pass, running whatever timers fall due."""
    if ticks <= 0:
        await asyncio.sleep(0)
        return
    await asyncio.sleep(ticks * TICK)


def canary():
    """Exit-2 guard: the code under test must observe the virtual clock."""
    import cashews.backends.memory as mem

    async def go():
        m = mem.Memory(check_interval=0)
        await m.set("k", 1, expire=1)
        a = await m.get("k")
        CLOCK.advance(16)
        b = await m.get("k")
        return a, b

    a, b = run(go)
    if a != 1 or b is not None:
        raise SystemExit("harness cannot observe the code: virtual clock not seen by cashews (canary failed)")
