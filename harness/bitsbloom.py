"""C18 helpers: run bit-field commands, `get_indexes`, the bloom decorators and `params_for` of the real
cashews code on generated cases, produce the request lines for lean/Drivers/C18.lean and compare.

Every `eval_*` function takes a list of cases (plain JSON-able dicts) and returns one `Res` per case:
    diff_spec  - None or text: the implementation contradicts the PROPERTY on this case
    diff_model - None or text: the implementation differs from the Lean model on this case
    stats      - set of interesting-state names the case reached
    trace      - what was asked / answered (goes into replay files)
"""
from __future__ import annotations

import contextlib
import hashlib
import zlib

from . import vtime
from .core import Driver, HarnessError

DRIVER = Driver("driver_c18", "Drivers/C18.lean")
PROBE_LIMIT = 200_000
# text alphabet for keys / elements: ascii letters, digits, punctuation, 2-, 3- and 4-byte UTF-8
ALPHABET = ["a", "b", "c", "x", "Z", "0", "1", "9", " ", "_", "-", ":", "/", "{", "é", "ж", "中", "𝔘"]


class Res:
    __slots__ = ("diff_spec", "diff_model", "stats", "trace")

    def __init__(self):
        self.diff_spec = None
        self.diff_model = None
        self.stats = set()
        self.trace = []

    @property
    def bad(self):
        return self.diff_spec is not None or self.diff_model is not None


def bitarray_cls():
    import cashews.utils as U
    from cashews.utils._bitarray import Bitarray

    if U.Bitarray is not Bitarray:
        raise HarnessError("cashews.utils.Bitarray is not the pure-python class C18 is anchored in (bitarray package installed?)")
    return Bitarray


def is_pow2(w: int) -> bool:
    return w > 0 and w & (w - 1) == 0


def showl(l) -> str:
    return ",".join(str(x) for x in l) if len(l) else "-"


# --------------------------------------------------------------------------------------------------
# single commands on `Bitarray` (stateless): incr / set / get on an explicit integer
# --------------------------------------------------------------------------------------------------

def spec_incr(a: int, i: int, w: int, by: int):
    """the property, closed form (no loops): only field i changes, to clamp(old + by)"""
    mask = (1 << w) - 1
    old = (a >> (i * w)) & mask
    newv = min(max(0, old + by), mask)
    return a + ((newv - old) << (i * w)), newv, old


def stats_incr(a: int, i: int, w: int, by: int) -> set:
    mask = (1 << w) - 1
    old = (a >> (i * w)) & mask
    st = set()
    if old + by > mask:
        st.add("saturate_top")
    if old + by < 0:
        st.add("saturate_bottom")
    others = a & ~(mask << (i * w))
    if others:
        st.add("other_fields_nonzero")
        if not is_pow2(w):
            st.add("width_not_pow2_with_neighbours")
    if i * w < a.bit_length() and (a >> ((i + 1) * w)):
        st.add("field_below_top_of_array")
    return st


def eval_incr1(cases: list[dict]) -> list[Res]:
    """case = {kind:'incr1', op:'incr'|'set'|'get', a, i, w, by|v}"""
    B = bitarray_cls()
    lines, impl, out = [], [], []
    for c in cases:
        r = Res()
        a, i, w = c["a"], c["i"], c["w"]
        try:
            b = B(str(a))
            if c["op"] == "incr":
                b.incr(i, w, c["by"])
                got = f"a={b.to_int()} v={b.get(i, w)}"
                lines.append(f"incr {a} {i} {w} {c['by']}")
                new, newv, _ = spec_incr(a, i, w, c["by"])
                want = f"a={new} v={newv}"
                r.stats = stats_incr(a, i, w, c["by"])
            elif c["op"] == "set":
                b.set(i, c["v"], w)
                got = f"a={b.to_int()}"
                lines.append(f"set {a} {i} {c['v']} {w}")
                mask = (1 << w) - 1
                old = (a >> (i * w)) & mask
                want = f"a={a + (((c['v'] & mask) - old) << (i * w))}"
                if a & ~(mask << (i * w)):
                    r.stats.add("other_fields_nonzero")
            else:
                got = f"v={b.get(i, w)}"
                lines.append(f"get {a} {i} {w}")
                want = f"v={(a >> (i * w)) & ((1 << w) - 1)}"
                if a == 0 or i * w >= a.bit_length():
                    r.stats.add("read_never_written")
        except Exception as e:  # noqa: BLE001  (any exception is an observable outcome)
            got = "E:" + type(e).__name__
        impl.append((got, want))
        out.append(r)
    answers = DRIVER.ask(lines) if lines else []
    for r, c, (got, want), ans, line in zip(out, cases, impl, answers, lines):
        r.trace = [{"line": line, "impl": got, "model": ans, "property_closed_form": want}]
        if got != want:
            r.diff_spec = f"`{line}`: Bitarray gives {got}, an array of independent saturating counters gives {want}"
        if got != ans:
            r.diff_model = f"`{line}`: Bitarray gives {got}, model gives {ans}"
    return out


# --------------------------------------------------------------------------------------------------
# histories of get_bits / incr_bits on one or two keys at a fixed width
# --------------------------------------------------------------------------------------------------

HIST_CFGS = ["bitarray", "memory", "facade"]


async def _hist_impl(cfg: str, w: int, ops: list) -> list[str]:
    outs = []
    if cfg == "bitarray":
        B = bitarray_cls()
        arrays: dict = {}
        for op in ops:
            if op[0] in TIMED_OPS:
                raise HarnessError("a bare Bitarray has no lifetime: timed history with cfg=bitarray")
            try:
                arr = arrays.get(op[1])
                if arr is None:
                    arr = arrays[op[1]] = B("0")
                if op[0] == "incr":
                    res = []
                    for idx in op[3]:
                        arr.incr(idx, w, op[2])
                        res.append(arr.get(idx, w))
                else:
                    res = [arr.get(idx, w) for idx in op[2]]
                outs.append("r=" + showl(res))
            except Exception as e:  # noqa: BLE001
                outs.append("E:" + type(e).__name__)
        return outs
    from cashews import Cache
    from cashews.backends.memory import Memory

    if cfg == "memory":
        api = Memory(check_interval=0)
        await api.init()
    else:
        api = Cache()
        api.setup("mem://?check_interval=0")
        await api.init()
    txs: list = []           # the open transaction block of the facade, if any

    async def leave_tx():
        if txs:
            await txs.pop().__aexit__(None, None, None)

    try:
        for op in ops:
            try:
                # ["begin", mode] ... ["end"]: the ops in between run inside `async with cache.transaction(mode)` (facade only).
                # A block also ends before the next `adv` / `del` (time does not pass and keys are not deleted inside a
                # transaction here) and at the end of the history.  Bit-field commands are not buffered: a block changes nothing.
                if op[0] in ("begin", "end", "adv", "del", "copy"):
                    await leave_tx()
                    if op[0] == "begin" and cfg == "facade":
                        from cashews import TransactionMode

                        tx = api.transaction(TransactionMode(op[1]))
                        await tx.__aenter__()
                        txs.append(tx)
                    if op[0] in ("begin", "end"):
                        outs.append("r=-")
                        continue
                if op[0] == "adv":                      # virtual time passes, nothing touches any key (no purge task: check_interval=0)
                    vtime.CLOCK.advance(op[1])
                    outs.append("r=-")
                    continue
                if op[0] == "copy":
                    # the VALUE of a bit-field key moved to another key with the value commands: what `get` answers for such a
                    # key (the array) is stored under `dst`; the two keys are independent arrays from then on
                    src, dst, how = f"bits:{op[1]}", f"bits:{op[2]}", op[3]
                    ttl = (op[4] if len(op) > 4 else 0) * vtime.TICK or None
                    if how not in COPY_HOW:
                        raise HarnessError(f"unknown way to copy {op}")

                    async def do_copy():
                        value = await api.get(src)
                        if value is None:
                            return 0
                        if how.endswith("set_many"):
                            await api.set_many({dst: value}, expire=ttl)
                        else:
                            await api.set(dst, value, expire=ttl)
                        return 1

                    if how.startswith("tx_") and cfg == "facade":
                        async with api.transaction():
                            done = await do_copy()
                    else:
                        done = await do_copy()
                    outs.append(f"r={done}")
                    continue
                key = f"bits:{op[1]}"
                if op[0] == "incr":
                    res = await api.incr_bits(key, *op[3], size=w, by=op[2])
                elif op[0] == "get":
                    res = await api.get_bits(key, *op[2], size=w)
                elif op[0] == "expire":
                    res = await api.expire(key, op[2] * vtime.TICK)
                    outs.append("r=-" if res is None else f"?{res!r}")
                    continue
                elif op[0] in ("del", "touch"):
                    res = await (api.delete(key) if op[0] == "del" else api.exists(key))
                    outs.append(f"r={int(res)}" if type(res) is bool else f"?{res!r}")
                    continue
                else:
                    raise HarnessError(f"unknown history op {op}")
                if not isinstance(res, tuple) or not all(type(x) is int for x in res):
                    outs.append(f"?{res!r}")
                else:
                    outs.append("r=" + showl(res))
            except HarnessError:
                raise
            except Exception as e:  # noqa: BLE001
                outs.append("E:" + type(e).__name__)
        await leave_tx()
    finally:
        await api.close()
    return outs


TIMED_OPS = ("expire", "adv", "del", "touch", "begin", "end", "copy")


def _hist_spec(w: int, ops: list):
    """the property statement evaluated in Python: per key a dict of independent saturating counters that lives until it
    is deleted or its deadline passes (eager expiry: at that instant every counter is 0 again and the deadline is gone,
    whether or not anything looked at the key); also collects the interesting states"""
    mask = (1 << w) - 1
    ctr: dict = {}          # key -> {index: value}
    dl: dict = {}           # key -> absolute deadline in ticks (only for live keys with a TTL)
    live: set = set()       # keys that hold an array
    stale: set = set()      # keys whose deadline passed and that no command has touched since (entry physically still stored)
    copies: set = set()     # {src, dst} pairs a value was copied between
    now = 0
    outs, stats = [], set()
    in_tx = False
    for op in ops:
        if op[0] in ("begin", "end"):       # a transaction block of the facade: transparent for bit-field keys
            in_tx = op[0] == "begin"
            outs.append("r=-")
            continue
        if op[0] in ("adv", "del", "copy"):
            in_tx = False
        elif in_tx:
            stats.add("command_inside_transaction_block")
            if op[0] == "expire":
                stats.add("expire_inside_transaction_block")
        if op[0] == "adv":
            now += op[1]
            for key in [k for k, d in dl.items() if d <= now]:
                del dl[key]
                ctr[key] = {}
                live.discard(key)
                stale.add(key)
                stats.add("deadline_passed")
            outs.append("r=-")
            continue
        if op[0] == "copy":
            src, dst, ttl = op[1], op[2], (op[4] if len(op) > 4 else 0)
            if src in stale:
                stats.add("copy_from_run_out_unpurged_entry")
            stale.discard(src)
            if src not in live:
                outs.append("r=0")
                continue
            stale.discard(dst)
            ctr[dst] = dict(ctr.get(src, {}))           # the VALUE: the two keys are independent from here on
            live.add(dst)
            if ttl:
                dl[dst] = now + ttl
            copies.add(frozenset((src, dst)))
            stats.add("bit_field_value_copied_to_" + ("itself" if src == dst else "another_key"))
            outs.append("r=1")
            continue
        key = op[1]
        c = ctr.setdefault(key, {})
        was_stale = key in stale
        stale.discard(key)
        if op[0] == "incr" and op[3] and any(key in pair and len(pair) == 2 for pair in copies):
            stats.add("incr_of_a_key_that_was_copied_from_or_to")
        if op[0] == "get" and op[2] and "incr_of_a_key_that_was_copied_from_or_to" in stats and any(key in pair and len(pair) == 2 for pair in copies):
            stats.add("read_of_copy_partner_after_incr")
        if op[0] == "incr":
            by, idxs = op[2], op[3]
            if was_stale and idxs:
                stats.add("incr_on_run_out_unpurged_entry")
            if key in dl and idxs:
                stats.add("incr_keeps_deadline")
            if len(set(idxs)) < len(idxs):
                stats.add("index_repeated_in_one_command")
            res = []
            for i in idxs:
                old = c.get(i, 0)
                if old + by > mask:
                    stats.add("saturate_top")
                if old + by < 0:
                    stats.add("saturate_bottom")
                if c.get(i - 1, 0) or c.get(i + 1, 0):
                    stats.add("neighbour_nonzero")
                    if not is_pow2(w):
                        stats.add("width_not_pow2_with_neighbours")
                c[i] = min(max(0, old + by), mask)
                res.append(c[i])
            live.add(key)
            outs.append("r=" + showl(res))
        elif op[0] == "get":
            if was_stale and op[2]:
                stats.add("read_on_run_out_unpurged_entry")
            for i in op[2]:
                if i not in c:
                    stats.add("read_never_written")
            outs.append("r=" + showl([c.get(i, 0) for i in op[2]]))
        elif op[0] == "expire":
            if key in live and op[2]:
                dl[key] = now + op[2]
                stats.add("deadline_set")
            outs.append("r=-")
        elif op[0] == "del":
            outs.append(f"r={int(key in live)}")
            if key in live:
                stats.add("delete_live_array")
            live.discard(key)
            dl.pop(key, None)
            ctr[key] = {}
        elif op[0] == "touch":
            outs.append(f"r={int(key in live)}")
        else:
            raise HarnessError(f"unknown history op {op}")
    if len({op[1] for op in ops if op[0] not in ("adv", "begin", "end")} | {op[2] for op in ops if op[0] == "copy"}) > 1:
        stats.add("two_keys_interleaved")
    return outs, stats


def _hist_line(op: list) -> str:
    if op[0] == "incr":
        return f"on {op[1]} incrbits {op[2]} {showl(op[3])}"
    if op[0] == "get":
        return f"on {op[1]} getbits {showl(op[2])}"
    if op[0] == "expire":
        return f"on {op[1]} expire {op[2]}"
    if op[0] == "adv":
        return f"madv {op[1]}"
    if op[0] == "copy":
        return f"copy {op[1]} {op[2]} {op[4] if len(op) > 4 else 0}"
    return f"on {op[1]} " + {"del": "del", "touch": "touch"}[op[0]]


COPY_HOW = ("set", "set_many", "tx_set", "tx_set_many")


def eval_hist(cases: list[dict]) -> list[Res]:
    """case = {kind:'hist', cfg, w, ops:[['incr', key, by, [idx..]] | ['get', key, [idx..]] | ['expire', key, ttl_ticks] |
    ['del', key] | ['touch', key] | ['adv', ticks] | ['begin', mode] | ['end'] | ['copy', src, dst, how, ttl_ticks]]}
    (everything but incr / get only with cfg memory / facade).  copy = the bit-field VALUE of `src` read with `get` and
    written to `dst` with `set` / `set_many`, plainly or inside a transaction of its own"""
    out, lines, where = [], [], []
    for ci, c in enumerate(cases):
        r = Res()
        w, ops = c["w"], c["ops"]
        impl = vtime.run(_hist_impl, c["cfg"], w, ops)
        spec, r.stats = _hist_spec(w, ops)
        r.trace = [{"op": op, "impl": o, "property": s} for op, o, s in zip(ops, impl, spec)]
        for k, (o, s) in enumerate(zip(impl, spec)):
            if o != s and r.diff_spec is None:
                r.diff_spec = f"step {k} {ops[k]} (width {w}, {c['cfg']}): implementation {o}, independent saturating counters {s}"
        lines.append(f"mbits {w}")           # one model of the whole store: every key its own slot, one clock
        where.append(None)
        for k, op in enumerate(ops):
            if op[0] in ("begin", "end"):       # no step of the model (Model/Bloom.lean, "controls of the facade")
                continue
            lines.append(_hist_line(op))
            where.append((ci, k))
        out.append(r)
    answers = DRIVER.ask(lines) if lines else []
    for ans, wh, line in zip(answers, where, lines):
        if wh is None:
            if ans != "ok":
                raise HarnessError(f"driver rejected `{line}`: {ans}")
            continue
        ci, k = wh
        r = out[ci]
        step = r.trace[k]
        step["driver"] = ans
        try:
            parts = dict(p.split("=", 1) for p in ans.split(" "))
            model, lspec = "r=" + parts["model"], "r=" + parts["spec"]
        except (ValueError, KeyError):
            raise HarnessError(f"driver answered `{ans}` to `{line}`") from None
        if step["impl"] != lspec and r.diff_spec is None:
            r.diff_spec = f"step {k} {cases[ci]['ops'][k]}: implementation {step['impl']}, ideal counter array (Lean) {lspec}"
        if step["impl"] != model and r.diff_model is None:
            r.diff_model = f"step {k} {cases[ci]['ops'][k]}: implementation {step['impl']}, model {model}"
    return out


# --------------------------------------------------------------------------------------------------
# get_indexes
# --------------------------------------------------------------------------------------------------

class ProbeLimit(Exception):
    pass


def _alg_blake(b: bytes) -> int:
    return int.from_bytes(hashlib.blake2b(b, digest_size=8).digest(), "big")     # a 64-bit digest, like xxh64_intdigest


def _alg_crc_seeded(b: bytes) -> int:
    return zlib.crc32(b, 0x9E3779B9)


def alg_list(name: str):
    """'real' = whatever cashews.utils.split_hash.algorithms holds (crc32 only when xxhash is absent);
    'multi3' = crc32 + a 64-bit and another 32-bit function, to exercise `ii = i % len(algorithms)`."""
    import cashews.utils.split_hash as sh

    if name == "real":
        return list(sh.algorithms)
    if name == "multi3":
        return [zlib.crc32, _alg_blake, _alg_crc_seeded]
    raise HarnessError(f"unknown algorithm list {name}")


@contextlib.contextmanager
def patched_algorithms(funcs, count: bool):
    """Install `funcs` (optionally behind a call counter with a probe limit, so that a re-probing loop
    that never ends becomes an observable outcome instead of a hang) in split_hash.algorithms."""
    import cashews.utils.split_hash as sh

    saved = list(sh.algorithms)
    counter = [0]

    def wrap(f):
        def g(b):
            counter[0] += 1
            if counter[0] > PROBE_LIMIT:
                raise ProbeLimit()
            return f(b)
        return g

    sh.algorithms[:] = [wrap(f) for f in funcs] if count else list(funcs)
    try:
        yield counter
    finally:
        sh.algorithms[:] = saved


def fuel_for(k: int, m: int) -> int:
    """probes allowed per bucket in the model.  With 2k <= m every probe collides with probability
    <= 1/2; otherwise (only generated for m <= 64) the last buckets need about m probes each."""
    return 64 if 2 * k <= m else 64 + 16 * m


def idx_line(reg: str, key: str, k: int, m: int, funcs, fuel: int | None = None) -> str:
    fuel = fuel_for(k, m) if fuel is None else fuel
    kb = key.encode()
    tabs = ";".join(",".join(str(f(kb + b"_%d" % j)) for j in range(k + fuel)) for f in funcs)
    return f"idx {reg} {kb.hex() or '-'} {k} {m} {fuel} {tabs}"


def call_get_indexes(key: str, k: int, m: int):
    from cashews.utils import get_indexes

    try:
        s = get_indexes(key, k, m)
    except AssertionError:
        return "assert", None
    except ProbeLimit:
        return "probe-limit", None
    except Exception as e:  # noqa: BLE001
        return "E:" + type(e).__name__, None
    return None, s


MUTATIONS = {"pop": "result.pop()", "clear": "result.clear()", "add": "result.add(max_index + 7)", "discard": "result.discard(min(result))",
             "update": "result |= {0, 1, 2}", "diff": "result -= set(sorted(result)[::2])"}


def mutate_result(s: set, how: str, m: int):
    """what a caller may do with the set it was given"""
    if how == "pop":
        if s:
            s.pop()
    elif how == "clear":
        s.clear()
    elif how == "add":
        s.add(m + 7)
    elif how == "discard":
        if s:
            s.discard(min(s))
    elif how == "update":
        s |= {0, 1, 2}
    elif how == "diff":
        s -= set(sorted(s)[::2])
    else:
        raise HarnessError(f"unknown mutation {how}")


def spec_indexes(s, k: int, m: int):
    """the property statement on the implementation's own output"""
    if not isinstance(s, (set, frozenset)):
        return f"result is {type(s).__name__}, not a set"
    if not all(type(x) is int for x in s):
        return "result holds non-integers"
    if len(s) != k:
        return f"{len(s)} distinct indexes returned, {k} requested"
    if any(x < 0 or x >= m for x in s):
        return f"index outside [0,{m})"
    return None


def eval_idx(cases: list[dict]) -> list[Res]:
    """case = {kind:'idx', key, k, m, algs:'real'|'multi3', mut?}  (mut: the caller changes the returned set - pop / clear / add /
    discard / update / diff - and calls again with the same arguments: a two-call case)"""
    out, lines = [], []
    for c in cases:
        r = Res()
        key, k, m = c["key"], c["k"], c["m"]
        funcs = alg_list(c["algs"])
        with patched_algorithms(funcs, count=True) as counter:
            err, s = call_get_indexes(key, k, m)
            probes = counter[0]
            err2, s2 = call_get_indexes(key, k, m)
        if c["algs"] == "real" and err != "probe-limit":
            err3, s3 = call_get_indexes(key, k, m)     # the untouched module, no wrapper at all
        else:
            err3, s3 = err, s
        # everything about the first answer is judged BEFORE the caller touches it
        snap = sorted(s) if err is None and isinstance(s, (set, frozenset)) and all(type(x) is int for x in s) else None
        bad = spec_indexes(s, k, m) if err is None else None
        nondet = None
        if err is None and not bad and ((err2, s2) != (None, s) or (err3, s3) != (None, s)):
            nondet = f"{sorted(s)} then {s2 and sorted(s2)} / {s3 and sorted(s3)}"
        mutated = None
        if c.get("mut") and err is None and isinstance(s, set):
            # the caller changes the set it was given, then asks again with the same arguments: the answer must be the
            # same as before (a result is the caller's own object - nothing the function remembers)
            first = sorted(s)
            mutate_result(s, c["mut"], m)
            with patched_algorithms(funcs, count=True):
                err4, s4 = call_get_indexes(key, k, m)
            mutated = (first, err4, s4)
        impl = err if err else "S=" + showl(snap) if snap is not None else f"?{s!r}"
        r.trace = [{"call": f"get_indexes({key!r}, {k}, {m})", "algorithms": c["algs"], "impl": impl, "hash_calls": probes}]
        if k > m:
            r.stats.add("k_gt_m_assert")
            if err != "assert":
                r.diff_model = f"get_indexes({key!r},{k},{m}) with k > m: {impl}, model: assert"
        elif err == "probe-limit":
            r.diff_spec = f"get_indexes({key!r},{k},{m}) did not return within {PROBE_LIMIT} hash calls"
        elif err:
            r.diff_spec = f"get_indexes({key!r},{k},{m}) raised {err}"
        else:
            if bad:
                r.diff_spec = f"get_indexes({key!r},{k},{m}) = {snap if snap is not None else repr(s)}: {bad}"
            elif nondet:
                r.diff_spec = f"get_indexes({key!r},{k},{m}) is not deterministic: {nondet}"
            if mutated is not None:
                r.stats.add("same_arguments_again_after_the_caller_changed_the_result")
                first, err4, s4 = mutated
                r.trace[0].update({"caller_then": c["mut"], "second_call": err4 or (sorted(s4) if isinstance(s4, (set, frozenset)) else repr(s4))})
                bad4 = err4 or spec_indexes(s4, k, m) or (None if sorted(s4) == first else "differs from the first answer")
                if bad4 and r.diff_spec is None:
                    r.diff_spec = (f"get_indexes({key!r},{k},{m}) answered {first}; the caller did `{MUTATIONS[c['mut']]}` on that result; the same call "
                                   f"then answered {err4 or sorted(s4)}: {bad4}")
            if k == m and k > 0:
                r.stats.add("k_eq_m")
            if probes > k:
                r.stats.add("reprobe")
        lines.append(idx_line("r", key, k, m, funcs))
        out.append(r)
    answers = DRIVER.ask(lines) if lines else []
    retry = []
    for n, (r, c, ans) in enumerate(zip(out, cases, answers)):
        if ans == "nofuel" and r.trace[0]["impl"].startswith("S="):
            retry.append(n)
    if retry:   # fuel is a device of the model (theorem indexes_fuel_irrelevant): ask again with 16x
        again = DRIVER.ask([idx_line("r", cases[n]["key"], cases[n]["k"], cases[n]["m"], alg_list(cases[n]["algs"]),
                                     16 * fuel_for(cases[n]["k"], cases[n]["m"])) for n in retry])
        for n, ans in zip(retry, again):
            answers[n] = ans
            out[n].stats.add("model_needed_more_fuel")
    for r, c, ans in zip(out, cases, answers):
        t = r.trace[0]
        t["model"] = ans
        if ans == "bad-op":
            raise HarnessError(f"driver rejected idx request for {c}")
        model = ans.split(" ")[0]
        if ans.startswith("S="):
            t["max_reprobes"] = int(ans.split("re=")[1])
            t["model_insertion_order"] = model
            model = "S=" + showl(sorted(int(x) for x in model[2:].split(","))) if model != "S=-" else model
        if t["impl"] != model and r.diff_model is None and r.diff_spec is None:
            r.diff_model = f"get_indexes({c['key']!r},{c['k']},{c['m']}) [{c['algs']}]: implementation {t['impl']}, model {model}"
    return out


# --------------------------------------------------------------------------------------------------
# bloom / dual_bloom decorators
# --------------------------------------------------------------------------------------------------

TRUTHY = {"bool": (True, False), "int": (1, 0), "str": ("yes", ""), "none": ([0], None)}


async def _mk_backend(via: str, rec: list):
    from cashews import Cache
    from cashews.backends.memory import Memory

    if via == "facade":
        async def mw(call, cmd, backend, *args, **kwargs):
            if cmd.value in ("get_bits", "incr_bits"):
                rec.append((cmd.value, args[0], tuple(args[1:]), dict(kwargs)))
            return await call(*args, **kwargs)

        cache = Cache()
        cache.setup("mem://?check_interval=0", middlewares=(mw,))
        await cache.init()
        return cache

    class RecMemory(Memory):
        async def get_bits(self, key, *indexes, size=1):
            rec.append(("get_bits", key, tuple(indexes), {"size": size}))
            return await super().get_bits(key, *indexes, size=size)

        async def incr_bits(self, key, *indexes, size=1, by=1):
            rec.append(("incr_bits", key, tuple(indexes), {"size": size, "by": by}))
            return await super().incr_bits(key, *indexes, size=size, by=by)

    be = RecMemory(check_interval=0)
    await be.init()
    return be


def bloom_params(capacity, fp):
    """(m, k) as the implementation computes them (floating point: data for the model, not modelled),
    or the name of the error it raises"""
    from cashews.decorators.bloom import params_for

    try:
        m, k = params_for(capacity, fp / 100)
    except AssertionError:
        return "assert"
    except Exception as e:  # noqa: BLE001
        return "E:" + type(e).__name__
    return m, k


# signatures of the wrapped predicate: (parameter names, number of positional-or-keyword parameters - the rest is
# keyword-only -, defaults).  An ELEMENT is the tuple of the call's bound arguments after defaults (the C08 notion of
# "the same call"); the same element can be passed in several equivalent call forms.
DFLT = "dflt"
SIGS = {
    "k": (("k",), 1, {}),
    "k_t": (("k", "t"), 2, {"t": DFLT}),
    "k_kwt": (("k", "t"), 1, {"t": DFLT}),
    "a_b": (("a", "b"), 2, {}),
    "k_t_u": (("k", "t", "u"), 2, {"t": DFLT, "u": "u0"}),
}
SIG_NAMES = {                   # explicit key templates that may be used with a signature (None = the generated template)
    "k": ["el:{k}"],
    "k_t": ["el:{k}:{t}", "{t}/{k}"],
    "k_kwt": ["el:{k}:{t}", "{t}/{k}"],
    "a_b": ["el:{a}:{b}", "{b}-{a}"],
    "k_t_u": ["el:{k}:{t}:{u}", "{u}{t}{k}"],
}


def tid1(v):
    """typed identity of one argument value: 1, True and 1.0 are equal (and hash-equal) in Python but are three different
    elements for a filter - the key formatter renders them `1`, `true`, `1.0`"""
    return (type(v).__name__, repr(v))


def tid(el, tn=None) -> tuple:
    """identity of an ELEMENT in the harness's own bookkeeping: the bound arguments with their types (+ the value of the
    key-context variable when the key template mentions one)"""
    el = (el,) if isinstance(el, str) else tuple(el)
    return tuple(tid1(v) for v in el) + ((("ctx", repr(tn)),) if tn is not None else ())


CTX_SUFFIX = ":{@:get(tn)}"        # appended to the key template of cases with "ctx": the key also depends on key_context(tn=...)


def make_pred(sig: str, on_call):
    """a fresh coroutine function with the given signature; `on_call(element)` produces its answer"""
    if sig == "k":
        async def pred(k):
            return on_call((k,))
    elif sig == "k_t":
        async def pred(k, t=DFLT):
            return on_call((k, t))
    elif sig == "k_kwt":
        async def pred(k, *, t=DFLT):
            return on_call((k, t))
    elif sig == "a_b":
        async def pred(a, b):
            return on_call((a, b))
    elif sig == "k_t_u":
        async def pred(k, t=DFLT, *, u="u0"):
            return on_call((k, t, u))
    else:
        raise HarnessError(f"unknown signature {sig}")
    return pred


def call_forms(sig: str, el: tuple) -> list:
    """every equivalent call form (args, kwargs) of the element, in a fixed order: the first `npos` parameters positional,
    the others by keyword (in declaration order and in reverse order), a parameter whose value is its default passed or omitted"""
    names, maxpos, defaults = SIGS[sig]
    if len(el) != len(names):
        raise HarnessError(f"element {el!r} does not fit signature {sig}")
    forms = []
    for npos in range(maxpos, -1, -1):
        rest = names[npos:]
        optional = [n for n in rest if n in defaults and tid1(defaults[n]) == tid1(el[names.index(n)])]
        for mask in range(1 << len(optional)):
            omitted = {n for b, n in enumerate(optional) if mask >> b & 1}
            kw = [(n, el[names.index(n)]) for n in rest if n not in omitted]
            for order in (kw, kw[::-1]):
                form = (tuple(el[:npos]), dict(order))
                if not any(len(f[0]) == len(form[0]) and list(f[1]) == list(form[1]) for f in forms):
                    forms.append(form)
    return forms


def step_element(sig: str, st: list):
    """(element tuple, form index) of an add/query step; old-style steps carry a bare string for signature `k`"""
    el = st[1]
    el = (el,) if isinstance(el, str) else tuple(el)
    return el, (st[2] if len(st) > 2 else 0)


def step_opts(st: list) -> dict:
    return st[3] if len(st) > 3 and isinstance(st[3], dict) else {}


# controls of the facade that may be open around steps of a bloom case: ["in", ctl, [steps]]
HARMLESS_DISABLED = ("get", "set", "get_many", "incr", "get_match", "ping")
CONTROLS = ["invalidate", "tx:fast", "tx:locked", "tx:serializable", "dis:get_bits", "dis:incr_bits"] + ["dis:" + c for c in HARMLESS_DISABLED]


@contextlib.asynccontextmanager
async def control(be, ctl: str):
    """open one control of the `Cache` facade (a bare backend has none: the block is then just its steps)"""
    from cashews import Cache

    if not isinstance(be, Cache):
        yield
        return
    if ctl == "invalidate":
        from cashews import invalidate_further

        with invalidate_further():
            yield
    elif ctl.startswith("dis:"):
        from cashews.commands import Command

        with be.disabling(Command(ctl[4:])):
            yield
    elif ctl.startswith("tx:"):
        from cashews import TransactionMode

        async with be.transaction(TransactionMode(ctl[3:])):
            yield
    else:
        raise HarnessError(f"unknown control {ctl}")


def flat_steps(steps: list):
    """(step, control or None, block number) for every step, blocks flattened"""
    blk = 0
    for st in steps:
        if st[0] == "in":
            blk += 1
            for inner in st[2]:
                if inner[0] == "in":
                    raise HarnessError("nested control blocks are not generated")
                yield inner, st[1], blk
        else:
            yield st, None, 0


def show_call(form) -> str:
    args, kwargs = form
    return "(" + ", ".join([repr(a) for a in args] + [f"{k}={v!r}" for k, v in kwargs.items()]) + ")"


async def _bloom_impl(c: dict):
    from cashews import key_context
    from cashews.decorators.bloom import bloom
    from cashews.key import get_cache_key, get_cache_key_template

    rec: list = []
    be = await _mk_backend(c["via"], rec)
    yes, no = TRUTHY[c.get("truthy", "bool")]
    sig = c.get("sig", "k")
    names = SIGS[sig][0]
    ctx = bool(c.get("ctx"))
    name = c["name"] + CTX_SUFFIX if ctx else c["name"]
    true_set = {tid(e) for e in c["true_set"]}
    calls: list = []

    def on_call(el):
        calls.append(el)
        return yes if tid(el) in true_set else no

    pred = make_pred(sig, on_call)
    steps = []
    try:
        kw = dict(capacity=c["capacity"], false_positives=c["fp"], check_false_positive=c["chk"], name=name)
        with key_context(tn="") if ctx else contextlib.nullcontext():     # (the template check at decoration time needs the variable to exist)
            try:
                deco = be.bloom(**kw) if c["via"] == "facade" else bloom(backend=be, **kw)
                func = deco(pred)
            except AssertionError:
                return {"decorate": "assert", "steps": []}
            tpl = get_cache_key_template(pred, key=name)
        params = bloom_params(c["capacity"], c["fp"])
        filter_key = f"bloom:{tpl}:{params[0]}" if not isinstance(params, str) else None

        written: set = set()        # every index a successful func.set has sent to the filter's key

        async def one(st, ctl):
            kind = st[0]
            del rec[:], calls[:]
            if kind in ("add", "query"):
                el, fi = step_element(sig, st)
                tn = step_opts(st).get("tn") if ctx else None
                forms = call_forms(sig, el)
                args, kwargs = forms[fi % len(forms)]
                with key_context(tn=tn) if ctx else contextlib.nullcontext():
                    # the element's key: the library's own key function on the canonical call (every parameter by keyword, defaults filled in)
                    key = get_cache_key(pred, tpl, (), dict(zip(names, el)))
                    try:
                        res = await (func.set(*args, **kwargs) if kind == "add" else func(*args, **kwargs))
                        outcome = "T" if res else "F"
                    except Exception as e:  # noqa: BLE001
                        outcome = "E:" + type(e).__name__
                for n_, k_, i_, _ in rec:
                    if n_ == "incr_bits" and k_ == filter_key and outcome == "T" and not (ctl == "dis:incr_bits"):
                        written.update(i_)
                steps.append({"kind": kind, "el": list(el), "tn": tn, "ctl": ctl, "call": show_call((args, kwargs)) + (f" [tn={tn!r}]" if ctx else ""),
                              "key": key, "impl": outcome, "called": bool(calls),
                              "backend": [(n, k, sorted(i), kw2) for n, k, i, kw2 in rec], "nidx": [len(i) for _, _, i, _ in rec]})
                return
            # commands on the filter's own key / passage of time (the filter is an ordinary key of the backend)
            try:
                if kind == "adv":
                    vtime.CLOCK.advance(st[1])
                    outcome = "-"
                elif kind == "expire":
                    res = await be.expire(filter_key, st[1] * vtime.TICK)
                    outcome = "-" if res is None else f"?{res!r}"
                elif kind == "del":
                    outcome = str(int(await be.delete(filter_key)))
                elif kind == "touch":
                    outcome = str(int(await be.exists(filter_key)))
                elif kind == "backup":
                    # the filter's VALUE copied to a backup key with the value commands, then the BACKUP wiped bit by bit:
                    # the two keys are independent arrays, the live filter must not notice
                    bak = filter_key + ":bak"
                    value = await be.get(filter_key)
                    if value is None:
                        outcome = "0"
                    else:
                        if st[1].endswith("set_many"):
                            await be.set_many({bak: value})
                        else:
                            await be.set(bak, value)
                        idxs = sorted(written)
                        live_bits = await be.get_bits(filter_key, *idxs)
                        before = await be.get_bits(bak, *idxs)
                        await be.incr_bits(bak, *idxs, by=-1)
                        after = await be.get_bits(bak, *idxs)
                        live_after = await be.get_bits(filter_key, *idxs)
                        ok = before == live_bits and not any(after) and live_after == live_bits
                        outcome = "-" if ok else f"?filter {live_bits} backup {before}; backup wiped: backup {after} filter {live_after}"
                    del rec[:]
                else:
                    raise HarnessError(f"unknown bloom step {st}")
            except HarnessError:
                raise
            except Exception as e:  # noqa: BLE001
                outcome = "E:" + type(e).__name__
            steps.append({"kind": kind, "arg": st[1] if len(st) > 1 else None, "ctl": ctl, "impl": outcome, "backend": [], "nidx": []})

        for st in c["steps"]:
            if st[0] != "in":
                await one(st, None)
                continue
            if any(inner[0] == "in" for inner in st[2]):
                raise HarnessError("nested control blocks are not generated")
            n0 = len(steps)
            try:
                async with control(be, st[1]):
                    for inner in st[2]:
                        await one(inner, st[1])
            except HarnessError:
                raise
            except Exception as e:  # noqa: BLE001   (leaving the block failed, e.g. the commit)
                steps.append({"kind": "leave", "ctl": st[1], "impl": "E:" + type(e).__name__, "backend": [], "nidx": []})
            else:
                steps.append({"kind": "leave", "ctl": st[1], "impl": "-", "backend": [], "nidx": []})
            if len(steps) == n0:
                raise HarnessError("control block produced no record")
        return {"decorate": "ok", "tpl": tpl, "steps": steps}
    finally:
        await be.close()


def _pyeq_class(ident: tuple, steps: list):
    """a representative of the element's class under Python's `==`/hash (1 == True == 1.0): what a dict / lru_cache /
    set keyed by the raw arguments would take for "the same call" """
    for p in steps:
        if p["kind"] in ("add", "query") and tid(p["el"], p.get("tn")) == ident:
            try:
                return hash((tuple(p["el"]), p.get("tn")))
            except TypeError:
                return ident
    return ident


def eval_bloom(cases: list[dict]) -> list[Res]:
    """case = {kind:'bloom', via, capacity, fp, chk, name, truthy, sig, true_set:[el], steps:[...]} with steps
    ['add'|'query', el, form] (el = list of the call's bound arguments after defaults, form = which of the element's
    equivalent call forms is used; a bare string el = signature `k`), ['expire', ttl_ticks] / ['del'] / ['touch'] on the
    filter's own key, ['adv', ticks]"""
    out, lines, where = [], [], []
    funcs = alg_list("real")
    for ci, c in enumerate(cases):
        r = Res()
        sig = c.get("sig", "k")
        params = bloom_params(c["capacity"], c["fp"])
        impl = vtime.run(_bloom_impl, c)
        r.trace = [{"params_for": params, "decorate": impl["decorate"]}] + impl["steps"]
        out.append(r)
        if isinstance(params, str) or impl["decorate"] != "ok":
            if (params == "assert") != (impl["decorate"] == "assert"):
                r.diff_model = f"decorating with capacity={c['capacity']} false_positives={c['fp']}: params_for -> {params}, decorator -> {impl['decorate']}"
            r.stats.add("params_rejected")
            continue
        m, k = params
        if not (0 < k <= m):
            r.diff_spec = f"params_for({c['capacity']}, {c['fp']}/100) = (m={m}, k={k}) violates 0 < k <= m"
            continue
        true_set = {tid(e) for e in c["true_set"]}
        # the property's own bookkeeping: which elements are in the filter.  The filter is a key of the backend: it is
        # empty again once that key was deleted or its deadline has passed (eagerly, whether anything looked or not)
        added: dict = {}        # element -> set of call forms it was added through
        looked: set = set()     # elements that were looked up
        universe_ids = {tid(p["el"], p.get("tn")) for p in impl["steps"] if p["kind"] in ("add", "query")}
        pyeq = {a: _pyeq_class(a, impl["steps"]) for a in universe_ids}
        nadded = 0
        now, deadline, live, stale = 0, None, False, False
        lines.append("bloom")
        where.append(None)
        want_key = f"bloom:{impl['tpl']}:{m}"
        for si, st in enumerate(impl["steps"]):
            kind = st["kind"]
            ctl = st.get("ctl")
            if ctl:
                r.stats.add("step_inside_" + ctl.split(":")[0] + "_block")
            if kind == "leave":
                if st["impl"] != "-" and r.diff_spec is None:
                    r.diff_spec = f"step {si}: leaving the {ctl} block raised {st['impl']}"
                continue
            if kind not in ("add", "query"):
                if st["impl"].startswith(("E:", "?")) and r.diff_spec is None:
                    r.diff_spec = f"step {si}: {kind} on the filter's key {want_key!r} gave {st['impl']}"
                if kind == "adv":
                    now += st["arg"]
                    if deadline is not None and deadline <= now:
                        added, nadded, deadline, live, stale = {}, 0, None, False, True
                        r.stats.add("filter_deadline_passed")
                    lines.append(f"badv {st['arg']}")
                elif kind == "expire":
                    if live and st["arg"]:
                        deadline = now + st["arg"]
                        r.stats.add("filter_deadline_set")
                    stale = False
                    lines.append(f"bexpire {st['arg']}")
                elif kind == "backup":      # another key: no step of the filter's model
                    r.stats.add("filter_value_copied_to_a_backup_key_and_the_backup_wiped")
                    if st["impl"] != ("-" if live else "0") and r.diff_spec is None:
                        r.diff_spec = f"step {si}: backup of the filter's key with get + {st['arg']} and wiping the backup: {st['impl']}"
                    stale = False
                    continue
                elif kind == "del":
                    added, nadded, deadline, live, stale = {}, 0, None, False, False
                    lines.append("bdel")
                else:
                    if st["impl"] != str(int(live)) and r.diff_spec is None:
                        r.diff_spec = f"step {si}: exists({want_key!r}) = {st['impl']}, the filter {'holds' if live else 'does not hold'} an array"
                    stale = False
                    lines.append("btouch")
                where.append((ci, si, "cmd"))
                continue
            el = tid(st["el"], st.get("tn"))
            under = tid(st["el"]) in true_set
            off = c["via"] == "facade" and ((kind == "query" and ctl == "dis:get_bits") or (kind == "add" and ctl == "dis:incr_bits"))
            if kind == "query" and ctl and el in added:
                r.stats.add("query_of_added_element_inside_" + ctl.split(":")[0] + "_block")
            if kind == "query" and not ctl and el in added and any(p.get("ctl") for p in impl["steps"][:si] if p["kind"] == "query"):
                r.stats.add("query_of_added_element_after_a_lookup_inside_a_control_block")
            if kind == "query" and el not in added and el not in looked:
                twins = [a for a in universe_ids if a != el and [v[1] for v in a] != [v[1] for v in el] and pyeq.get(a) == pyeq.get(el)]
                if twins:
                    r.stats.add("lookup_of_an_equal_but_differently_rendered_twin")
            if kind == "query":
                looked.add(el)
            if kind == "query" and el in added and any(pyeq.get(a) == pyeq.get(el) and a != el for a in looked):
                r.stats.add("query_of_added_element_whose_twin_was_looked_up_before")
            # --- the property itself, on the implementation's own answers
            if kind == "query" and el in added:
                r.stats.add("query_of_added_element")
                if st["call"] not in added[el]:
                    r.stats.add("query_of_added_element_in_another_call_form")
                if nadded > c["capacity"]:
                    r.stats.add("query_of_added_element_beyond_capacity")
                if st["impl"] != "T" and r.diff_spec is None:
                    r.diff_spec = (f"step {si}: the bloom-decorated predicate answered {st['impl']} for the call {st['call']}: this element "
                                   f"{el!r} was added (through {sorted(added[el])}; capacity={c['capacity']}, "
                                   f"false_positives={c['fp']}, {nadded} elements in the filter)")
            if kind == "query" and el not in added and st["impl"] == "T" and not c["chk"]:
                r.stats.add("false_positive_observed")
            if kind == "query" and el not in added and c["chk"] and st["called"]:
                r.stats.add("false_positive_checked_by_call")
            if kind == "query" and stale:
                r.stats.add("query_on_run_out_unpurged_filter")
            if kind == "add" and st["impl"] == "T" and off:
                r.stats.add("add_with_incr_bits_disabled_is_not_an_add")
            if kind == "add" and st["impl"] == "T" and not off:
                if stale:
                    r.stats.add("add_on_run_out_unpurged_filter")
                if deadline is not None:
                    r.stats.add("add_keeps_filter_deadline")
                if el not in added:
                    nadded += 1
                added.setdefault(el, set()).add(st["call"])
                live = True
            if (kind == "query" or st["impl"] == "T") and not off:
                stale = False
            if kind == "add" and st["impl"] not in ("T", "F") and r.diff_spec is None:
                r.diff_spec = f"step {si}: func.set{st['call']} raised {st['impl']}"
            # --- model
            lines.append(idx_line("e", st["key"], k, m, funcs))
            where.append((ci, si, "idx-off" if off else "idx"))
            if off and kind == "add":       # the command never reaches the backend: nothing is added
                continue
            if kind == "add":
                lines.append(f"badd {'T' if under else 'F'} $e")
            elif off:                       # get_bits answers None: the decorator asks the wrapped function
                lines.append(f"bqueryoff {'T' if under else 'F'}")
            else:
                lines.append(f"bquery {'T' if c['chk'] else 'F'} {'T' if under else 'F'} $e")
            where.append((ci, si, kind))
            for n, bkey, _, kw in st["backend"]:
                if bkey != want_key and r.diff_model is None:
                    r.diff_model = f"step {si}: bits stored under {bkey!r}, expected {want_key!r}"
                if kw.get("size", 1) != 1 or kw.get("by", 1) != 1:
                    r.diff_model = r.diff_model or f"step {si}: {n} called with {kw}"
    answers = DRIVER.ask(lines) if lines else []
    for ans, wh, line in zip(answers, where, lines):
        if wh is None:
            continue
        ci, si, what = wh
        r, c = out[ci], cases[ci]
        st = r.trace[1 + si]
        if ans == "bad-op":
            raise HarnessError(f"driver rejected `{line[:80]}`")
        if what == "cmd":
            if ans != "ok":
                raise HarnessError(f"driver answered `{ans}` to `{line}`")
        elif what == "idx-off":
            st["model_indexes"] = ans
        elif what == "idx":
            st["model_indexes"] = ans
            if not ans.startswith("S="):
                r.diff_model = r.diff_model or f"step {si}: model could not derive indexes for {st['key']!r}: {ans}"
                continue
            S = ans.split(" ")[0][2:]
            S = sorted(int(x) for x in S.split(",")) if S != "-" else []
            expect_cmd = ("incr_bits" if st["impl"] == "T" else None) if st["kind"] == "add" else "get_bits"
            got = [(n, i) for n, _, i, _ in st["backend"]]
            want = [(expect_cmd, S)] if expect_cmd else []
            if got != want and r.diff_model is None and not st["impl"].startswith("E:"):
                r.diff_model = (f"step {si} ({st['kind']} {st['call']}): backend received {got}, model expects {want} "
                                f"(indexes of the element's key {st['key']!r})")
            if st["backend"] and any(n != len(set(i)) for n, (_, _, i, _) in zip(st["nidx"], st["backend"])):
                r.diff_model = r.diff_model or f"step {si}: duplicate indexes passed to the backend"
        elif what == "add":
            if ans != "ok":
                raise HarnessError(f"driver answered `{ans}` to `{line}`")
        else:
            st["model"] = ans
            parts = dict(p.split("=", 1) for p in ans.split(" "))
            if (st["impl"], "T" if st["called"] else "F") != (parts["ans"], parts["calls"]) and r.diff_model is None:
                r.diff_model = (f"step {si} (query {st['call']}): implementation answered {st['impl']} (wrapped function called: "
                                f"{st['called']}), model ans={parts['ans']} calls={parts['calls']}")
    return out


async def _dual_impl(c: dict):
    from cashews.decorators.bloom import dual_bloom
    from cashews.key import get_cache_key, get_cache_key_template

    rec: list = []
    be = await _mk_backend(c["via"], rec)
    sig = c.get("sig", "k")
    names = SIGS[sig][0]
    true_set = {tid(e) for e in c["true_set"]}
    calls: list = []

    def on_call(el):
        calls.append(el)
        return tid(el) in true_set

    pred = make_pred(sig, on_call)
    steps = []
    try:
        kw = dict(capacity=c["capacity"], false=c["false"], no_collisions=c["no_collisions"], name=c["name"])
        try:
            func = (be.dual_bloom(**kw) if c["via"] == "facade" else dual_bloom(backend=be, **kw))(pred)
        except AssertionError:
            return {"decorate": "assert", "steps": []}
        tpl = "dual_bloom:" + get_cache_key_template(pred, key=c["name"])
        for call in c["calls"]:
            del rec[:], calls[:]
            el, fi = step_element(sig, ["call"] + (call if isinstance(call, list) else [call]))
            forms = call_forms(sig, el)
            args, kwargs = forms[fi % len(forms)]
            key = get_cache_key(pred, tpl, (), dict(zip(names, el)))     # canonical call: every parameter by keyword, defaults filled in
            try:
                res = await func(*args, **kwargs)
                outcome = "T" if res is True else "F" if res is False else f"?{res!r}"
            except Exception as e:  # noqa: BLE001
                outcome = "E:" + type(e).__name__
            steps.append({"el": list(el), "call": show_call((args, kwargs)), "key": key, "impl": outcome, "called": bool(calls),
                          "backend": [(n, k, sorted(i)) for n, k, i, _ in rec]})
        return {"decorate": "ok", "tpl": tpl, "steps": steps}
    finally:
        await be.close()


def eval_dual(cases: list[dict]) -> list[Res]:
    """case = {kind:'dual', via, capacity, false, no_collisions, name, sig, true_set, calls:[[el, form] | el]} - correspondence
    with the model only (dual_bloom's documentation allows false negatives; the property is silent): answers, whether the
    wrapped function ran, and which indexes of which filter reached the backend - whatever call form the element came in"""
    out, lines, where = [], [], []
    funcs = alg_list("real")
    for ci, c in enumerate(cases):
        r = Res()
        cap = c["capacity"] if isinstance(c["capacity"], (list, tuple)) else (c["capacity"], c["capacity"])
        fl = c["false"] if isinstance(c["false"], (list, tuple)) else (c["false"], c["false"])
        cc = dict(c, capacity=tuple(c["capacity"]) if isinstance(c["capacity"], list) else c["capacity"],
                  false=tuple(c["false"]) if isinstance(c["false"], list) else c["false"])
        pt, pf = bloom_params(cap[0], fl[0]), bloom_params(cap[1], fl[1])
        impl = vtime.run(_dual_impl, cc)
        r.trace = [{"params_true": pt, "params_false": pf, "decorate": impl["decorate"], "tpl": impl.get("tpl")}] + impl["steps"]
        out.append(r)
        if isinstance(pt, str) or isinstance(pf, str) or impl["decorate"] != "ok":
            if ("assert" in (pt, pf)) != (impl["decorate"] == "assert"):
                r.diff_model = f"dual_bloom decoration: params {pt}/{pf}, decorator {impl['decorate']}"
            continue
        (mt, kt), (mf, kf) = pt, pf
        lines.append("dual")
        where.append(None)
        true_set = {tid(e) for e in c["true_set"]}
        seen_forms: dict = {}
        recorded: dict = {}     # element -> the call that wrote its bits into the true filter
        true_key = impl["tpl"] + ":true"
        for si, st in enumerate(impl["steps"]):
            el = tid(st["el"])
            if seen_forms.setdefault(el, st["call"]) != st["call"]:
                r.stats.add("same_element_in_another_call_form")
            # what can be said of dual_bloom at the level of the property (theorem dual_recorded_never_false): an element
            # whose bits it wrote into the true filter is never answered False afterwards, in whatever call form it comes
            if el in recorded:
                r.stats.add("call_for_recorded_element")
                if recorded[el] != st["call"]:
                    r.stats.add("call_for_recorded_element_in_another_call_form")
                if st["impl"] != "T" and r.diff_spec is None:
                    r.diff_spec = (f"call {si}: dual_bloom answered {st['impl']} for the call {st['call']}: it had recorded this element "
                                   f"{el!r} as true (call {recorded[el]}) and the wrapped function still answers True")
            if st["impl"] == "T" and any(n == "incr_bits" and bk == true_key for n, bk, _ in st["backend"]):
                recorded.setdefault(el, st["call"])
            lines.append(idx_line("t", st["key"] + "true", kt, mt, funcs))
            where.append((ci, si, "it"))
            lines.append(idx_line("f", st["key"] + "false", kf, mf, funcs))
            where.append((ci, si, "if"))
            lines.append(f"dcall {'T' if c['no_collisions'] else 'F'} {'T' if tid(st['el']) in true_set else 'F'} $t $f")
            where.append((ci, si, "call"))
    answers = DRIVER.ask(lines) if lines else []
    for ans, wh, line in zip(answers, where, lines):
        if wh is None:
            continue
        ci, si, what = wh
        r = out[ci]
        st = r.trace[1 + si]
        if ans == "bad-op":
            raise HarnessError(f"driver rejected `{line[:80]}`")
        if what in ("it", "if"):
            st["model_" + what] = ans.split(" ")[0]
            if not ans.startswith("S="):
                r.diff_model = r.diff_model or f"call {si}: model could not derive indexes: {ans}"
                continue
            S = ans.split(" ")[0][2:]
            S = sorted(int(x) for x in S.split(",")) if S != "-" else []
            fkey = r.trace[0]["tpl"] + (":true" if what == "it" else ":false")
            reads = [i for n, bk, i in st["backend"] if n == "get_bits" and bk == fkey]
            if reads != [S] and r.diff_model is None and not st["impl"].startswith("E:"):
                r.diff_model = (f"call {si} {st['call']}: get_bits on {fkey!r} with indexes {reads}, model expects {[S]} "
                                f"(indexes of the element's key {st['key']!r})")
            writes = [i for n, bk, i in st["backend"] if n == "incr_bits" and bk == fkey]
            if any(wr != S for wr in writes) and r.diff_model is None:
                r.diff_model = f"call {si} {st['call']}: incr_bits on {fkey!r} with indexes {writes}, model expects {S}"
        else:
            st["model"] = ans
            parts = dict(p.split("=", 1) for p in ans.split(" "))
            if (st["impl"], "T" if st["called"] else "F") != (parts["ans"], parts["calls"]) and r.diff_model is None:
                r.diff_model = (f"call {si} {st['call']}: dual_bloom answered {st['impl']} (wrapped function called: {st['called']}), "
                                f"model ans={parts['ans']} calls={parts['calls']}")
            if not st["called"]:
                r.stats.add("answered_from_filters")
            if st["called"] and si > 0:
                r.stats.add("undecided_after_first_call")
    return out


# --------------------------------------------------------------------------------------------------
# params_for on a grid (floating point; not modelled)
# --------------------------------------------------------------------------------------------------

def eval_params(cases: list[dict]) -> list[Res]:
    """case = {kind:'params', capacity, fp}: params_for either refuses (AssertionError 'too high false positive
    value') or returns integers with 0 < k <= m, which is what get_indexes' assertion needs"""
    out = []
    for c in cases:
        r = Res()
        p = bloom_params(c["capacity"], c["fp"])
        r.trace = [{"params_for": p}]
        if p == "assert":
            r.stats.add("params_rejected")
        elif isinstance(p, str):
            r.diff_spec = f"params_for({c['capacity']}, {c['fp']}/100) raised {p}"
        else:
            m, k = p
            if not (type(m) is int and type(k) is int and 0 < k <= m):
                r.diff_spec = f"params_for({c['capacity']}, {c['fp']}/100) = (m={m!r}, k={k!r}) violates 0 < k <= m"
            else:
                r.stats.add("params_ok")
                if k == m:
                    r.stats.add("k_eq_m")
        out.append(r)
    return out


EVAL = {"incr1": eval_incr1, "hist": eval_hist, "idx": eval_idx, "bloom": eval_bloom, "dual": eval_dual, "params": eval_params}


def evaluate(cases: list[dict]) -> list[Res]:
    """evaluate a mixed list of cases, batching by kind (one driver process per kind)"""
    res: list = [None] * len(cases)
    for kind, fn in EVAL.items():
        sel = [n for n, c in enumerate(cases) if c["kind"] == kind]
        if sel:
            for n, r in zip(sel, fn([cases[n] for n in sel])):
                res[n] = r
    if any(r is None for r in res):
        raise HarnessError("case of unknown kind")
    return res
