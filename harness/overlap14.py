"""C14, two further stages on the real decorators (helpers of harness/props/c14.py).

OVERLAPPING CALLS.  Only the sentence about `hit` is restricted to sequential histories.  A case is
{"cfg": {...decor14 cfg..., "protected": 0|1}, "ops": [...]} over one argument value:
    "begin"           a call of the decorated function starts (a task of its own); every function BODY that starts parks
                      on a gate, so the call stays inside the function until its body is released
    "fin <g> <o>"     the g-th oldest parked body finishes with outcome o (ok | lis | unl); whoever waits for it is answered
    "adv <ticks>"     virtual time passes
Judged by the property's own sentences on what was observed (oracle), for failover / soft (protected on and off) / early /
hit; failover and soft without single-flight protection are also diffed against the Lean model
(Model/Decor/Overlap.lean, driver cases `ofail` / `osoft`).

CAPACITY (hit).  A sequential history on a tiny in-memory store (`mem://?size=N`) with filler keys being set and deleted
around the calls, so that values and counters get evicted: judged by "a stored result is served at most cache_hits times
before the function is executed again" (run by decor14.execute, ops "set <key>" / "del <key>").
"""
from __future__ import annotations

import asyncio
import itertools

from . import decor14 as D
from . import vtime
from .core import HarnessError
from .vtime import CLOCK


def wrap(cache, cfg, f):
    d = cfg["decor"]
    ttl, inner = cfg["ttl"] / 8, cfg["inner"] / 8
    prot = bool(cfg.get("protected", 0))
    if d == "early":
        return cache.early(ttl=ttl, early_ttl=inner, background=bool(cfg["bg"]), protected=prot)(f)
    if d == "soft":
        return cache.soft(ttl=ttl, soft_ttl=inner, exceptions=(D.Listed,), protected=prot)(f)
    if d == "fail":
        return cache.failover(ttl=ttl, exceptions=(D.Listed,))(f)
    if d == "hit":
        return cache.hit(ttl=ttl, cache_hits=cfg["hits"], update_after=cfg["upd"], background=bool(cfg["bg"]))(f)
    raise HarnessError(f"unknown decorator {d}")


_ST = None


async def gated_function(arg):
    """THE decorated function of this stage (one module-level object: cashews caches templates per function object):
    every body parks on a gate until its `fin`"""
    st = _ST
    n = len(st["execs"])
    rec = {"id": n, "start": CLOCK.ticks(), "end": None, "outcome": None}
    st["execs"].append(rec)
    fut = st["loop"].create_future()
    st["gates"].append((n, fut))
    out = await fut
    rec["end"] = CLOCK.ticks()
    rec["outcome"] = out
    if out == "ok":
        return (rec["end"], n)
    if out not in ("lis", "unl"):
        raise HarnessError(f"bad outcome {out!r}")
    raise (D.Listed if out == "lis" else D.Unlisted)(out)


def _val(res):
    return f"{res[0]}:{res[1]}:{res[2]}" if res[0] == "val" else res[0] + ":" + res[1]


async def _execute(cfg, ops):
    from cashews import Cache

    loop = asyncio.get_running_loop()
    loop.SPIN = 10 ** 12
    loop.set_exception_handler(lambda l, ctx: None)
    D._guard(loop)
    cache = Cache()
    cache.setup(D.STORES[cfg.get("store", "plain")])
    await cache.init()
    global _ST
    st = _ST = {"execs": [], "gates": [], "loop": loop}
    g = wrap(cache, cfg, gated_function)
    calls = []          # {"task", "t", "own": body id or None, "seen": answered already}
    events = []

    def collect(t, via):
        out = []
        for k, c in enumerate(calls):
            if not c["seen"] and c["task"].done():
                c["seen"] = True
                c["res"] = c["task"].result()
                c["t_ans"] = t
                c["via"] = via
                out.append(k)
        return out

    for line in ops:
        w = line.split()
        t = CLOCK.ticks()
        if w[0] == "begin":
            before = len(st["execs"])
            task = loop.create_task(D._caller(g, "a"))
            calls.append({"task": task, "t": t, "own": None, "seen": False})
            await D._quiesce()
            new = [e["id"] for e in st["execs"][before:]]
            k = len(calls) - 1
            if not task.done() and new:
                calls[k]["own"] = new[0]
            answered = collect(t, None)
            events.append({"op": line, "kind": "begin", "t": t, "call": k, "bodies": new, "answered": answered,
                           "pending": len(st["gates"])})
        elif w[0] == "fin":
            gi, o = int(w[1]), w[2]
            if gi < len(st["gates"]):
                n, fut = st["gates"].pop(gi)
                before = len(st["execs"])
                fut.set_result(o)
                await D._quiesce()
                answered = collect(t, n)
                events.append({"op": line, "kind": "fin", "t": t, "body": n, "outcome": o, "answered": answered,
                               "bodies": [e["id"] for e in st["execs"][before:]], "pending": len(st["gates"])})
            else:
                events.append({"op": line, "kind": "fin", "t": t, "body": None, "outcome": o, "answered": [], "bodies": [],
                               "pending": len(st["gates"])})
        elif w[0] == "adv":
            CLOCK.advance(int(w[1]))
            await D._quiesce()
            events.append({"op": line, "kind": "adv", "t": t, "answered": collect(CLOCK.ticks(), None), "bodies": [],
                           "pending": len(st["gates"])})
        else:
            raise HarnessError(f"bad op {line!r}")
        if CLOCK.ticks() != t + (int(w[1]) if w[0] == "adv" else 0):
            raise HarnessError("virtual time moved on its own")
    # drain: every body still parked fails with an unlisted exception, then every call must have returned
    for _ in range(len(ops) + 4):
        if not st["gates"]:
            break
        n, fut = st["gates"].pop(0)
        fut.set_result("unl")
        await D._quiesce()
    await D._quiesce()
    for k, c in enumerate(calls):
        if not c["task"].done():
            raise HarnessError(f"call {k} never returned although every function body was released")
        c["task"].result()
    await cache.close()
    summary = [{"t": c["t"], "own": c["own"], "res": _val(c["res"]) if c.get("seen") else None, "t_ans": c.get("t_ans"),
                "via": c.get("via")} for c in calls]
    return {"events": events, "calls": summary,
            "bodies": [{"id": e["id"], "start": e["start"], "end": e["end"], "outcome": e["outcome"]} for e in st["execs"]]}


def execute(cfg, ops):
    return vtime.run(_execute, cfg, ops)


# ---------------------------------------------------------------------------------------------------------------------
# oracle
# ---------------------------------------------------------------------------------------------------------------------

def oracle(cfg, run):
    """the property's sentences on an observed overlapping history: (problems [(op index, signature, text)], interesting)"""
    d, ttl, inner = cfg["decor"], cfg["ttl"], cfg["inner"]
    problems, seen = [], set()
    bodies = {b["id"]: b for b in run["bodies"]}
    for i, ev in enumerate(run["events"]):
        if ev["kind"] == "begin":
            k = ev["call"]
            inside = sum(1 for b in run["bodies"] if b["start"] <= ev["t"] and (b["end"] is None or b["end"] >= ev["t"])
                         and b["id"] not in ev["bodies"])
            if inside:
                seen.add("call_began_while_another_body_was_running")
            if d == "fail" and not (ev["bodies"] and k not in ev["answered"]):
                problems.append((i, "failover-not-executed",
                                 f"call {k} began at {ev['t']} ({inside} other call(s) inside the function) and the function was "
                                 f"not executed for it ('the function is executed on every call')"))
            if not ev["bodies"] and k not in ev["answered"]:
                seen.add("call_waits_for_another_calls_execution")
        for k in ev["answered"]:
            c = run["calls"][k]
            res, t_ans = c["res"], c["t_ans"]
            kind = res.split(":")[0]
            if kind == "other":
                problems.append((i, "unexpected-result", f"call {k} returned/raised something outside the alphabet: {res}"))
                continue
            if kind != "val":
                continue
            stamp, vid = int(res.split(":")[1]), int(res.split(":")[2])
            via = bodies.get(c["via"]) if c["via"] is not None else None
            # fresh: produced by the call's own execution - or (not failover) by the execution it waited for (single-flight)
            own = (c["own"] is not None and vid == c["own"]) or (d != "fail" and c["via"] is not None and vid == c["via"])
            age = t_ans - stamp
            if not own:
                seen.add("stored_result_served")
                if via is not None and any(b["end"] is not None and c["t"] <= b["end"] <= t_ans and b["outcome"] == "ok"
                                           and b["id"] != c["own"] for b in run["bodies"]):
                    seen.add("another_call_stored_while_this_one_was_inside_the_function")
            if d == "fail" and not own:
                mine = bodies.get(c["own"])
                if not (mine and mine["outcome"] == "lis" and age < ttl):
                    problems.append((i, "failover-stored-wrongly-served",
                                     f"call {k} (begun {c['t']}, own execution: {mine and mine['outcome']}) was handed at {t_ans} the "
                                     f"stored result {res} aged {age} (ttl={ttl}): only a listed exception of its OWN execution, and a "
                                     f"result younger than ttl, allow that"))
            if d == "soft" and not own:
                if not (age < ttl):
                    problems.append((i, "soft-stale-wrongly-served",
                                     f"call {k} (begun {c['t']}) was handed at {t_ans} the result {res} stored {age} >= ttl={ttl} ago"
                                     + (" although a newer result had been stored under the key meanwhile" if "another_call_stored_while_this_one_was_inside_the_function" in seen else "")))
                elif via is None and age > inner:
                    problems.append((i, "soft-stale-without-recompute", f"call {k} was served {res} aged {age} > soft_ttl={inner} at once, nothing executed"))
                elif via is not None and via["outcome"] != "lis":
                    problems.append((i, "soft-stale-wrongly-served",
                                     f"call {k} was handed the stored result {res} after an execution that ended with {via['outcome']}"))
            if d == "early" and not (0 <= age <= ttl):
                problems.append((i, "early-older-than-ttl", f"call {k} was handed at {t_ans} a result stored at {stamp} (> ttl={ttl} ago)"))
            if age >= ttl - 1:
                seen.add("value_handed_out_close_to_its_ttl")
    return problems, seen


# ---------------------------------------------------------------------------------------------------------------------
# model view (failover, soft without protection)
# ---------------------------------------------------------------------------------------------------------------------

def modelled(cfg):
    return cfg["decor"] == "fail" or (cfg["decor"] == "soft" and not cfg.get("protected", 0))


def model_lines(cfg, ops):
    return ["case %s ttl=%d inner=%d hits=0 upd=0 bg=0" % ("ofail" if cfg["decor"] == "fail" else "osoft", cfg["ttl"], cfg["inner"])] + \
           [" ".join(l.split()) for l in ops]


def impl_views(cfg, run):
    out = []
    for ev in run["events"]:
        tail = f" p={ev['pending']} t={ev['t'] + (int(ev['op'].split()[1]) if ev['kind'] == 'adv' else 0)}"
        if ev["kind"] == "adv":
            out.append("ok" + tail if not ev["answered"] else "ok+answers" + tail)
        elif ev["kind"] == "begin":
            c = run["calls"][ev["call"]]
            if ev["call"] in ev["answered"]:
                out.append("served:" + _as_model(c, None) + tail)
            elif c["own"] is not None:
                out.append(f"began:{c['own']}" + tail)
            else:
                out.append("waits" + tail)
        else:
            if ev["body"] is None:
                out.append("noop" + tail)
            elif len(ev["answered"]) == 1:
                out.append("answered:" + _as_model(run["calls"][ev["answered"][0]], ev["body"]) + tail)
            else:
                out.append(f"answered:{len(ev['answered'])}-calls" + tail)
    return out


def _as_model(c, body):
    res = c["res"]
    if res.startswith("val:"):
        _, s, i = res.split(":")
        return ("fresh" if body is not None and int(i) == body and c["own"] == body else "stored") + f":{s}:{i}"
    return res


def model_view(ans):
    return ans[len("model="):] if ans.startswith("model=") else "?" + ans


# ---------------------------------------------------------------------------------------------------------------------
# cases
# ---------------------------------------------------------------------------------------------------------------------

def _cfg(decor, **kw):
    c = {"decor": decor, "ttl": 16, "inner": 4 if decor in ("soft", "early") else 0, "hits": 0, "upd": 0, "bg": 0,
         "store": "plain", "protected": 0}
    c.update(kw)
    return c


OVERLAP_CFGS = [
    _cfg("fail"),
    _cfg("soft", protected=0),
    _cfg("soft", protected=1),
    _cfg("early", bg=1),
    _cfg("early", bg=0),
    _cfg("early", bg=1, protected=1),
    _cfg("hit", hits=2, upd=1, bg=1),
    _cfg("hit", hits=1, upd=0, bg=0),
]


def interleavings(n):
    """all orders of begin_k / fin_k (k < n) with begin_k before fin_k"""
    out = []

    def rec(seq, begun, done):
        if len(seq) == 2 * n:
            out.append(list(seq))
            return
        for k in range(n):
            if k not in begun:
                rec(seq + [("b", k)], begun | {k}, done)
                break                      # calls are interchangeable: begin them in order
        for k in sorted(begun - done):
            rec(seq + [("f", k)], begun, done | {k})
    rec([], frozenset(), frozenset())
    return out


def schedule(order, outs, advs):
    """ops of one interleaving; `fin` addresses the body by its position among the parked ones, assuming every call that
    began parked a body of its own (when it did not, the index may point past the end: a no-op)"""
    ops, pending = [], []
    for j, (what, k) in enumerate(order):
        if what == "b":
            ops.append("begin")
            pending.append(k)
        else:
            ops.append(f"fin {pending.index(k)} {outs[k]}")
            pending.remove(k)
        if j < len(advs) and advs[j]:
            ops.append(f"adv {advs[j]}")
    return ops


def overlap_cases(thorough):
    """a stored result aged a0 (young / stale / one or two ticks before its ttl / gone), then every interleaving of two calls
    x outcomes x time steps between the steps; three calls for the strategies without single-flight protection"""
    cases = []
    steps = (0, 1, 2) if thorough else (0, 2)
    ages = (3, 5, 13, 14, 17) if thorough else (3, 14, 17)
    two = interleavings(2)
    three = interleavings(3)
    for cfg in OVERLAP_CFGS:
        for a0 in ages:
            for order in two:
                for outs in itertools.product(("ok", "lis"), repeat=2):
                    for advs in itertools.product(steps, repeat=3):
                        cases.append({"cfg": cfg, "ops": ["begin", "fin 0 ok", f"adv {a0}"] + schedule(order, outs, advs)})
        if thorough or cfg["decor"] == "fail" or (cfg["decor"] == "soft" and not cfg["protected"]):
            for order in three:
                for outs in itertools.product(("ok", "lis"), repeat=3):
                    if not thorough and cfg["decor"] != "fail" and outs.count("ok") != 1:
                        continue
                    cases.append({"cfg": cfg, "ops": ["begin", "fin 0 ok", "adv 14"] + schedule(order, outs, (0, 1, 0, 2, 0))})
    return cases


# ---- capacity (hit)

CAP_STORES = {"cap3": "mem://?size=3&check_interval=0", "cap4": "mem://?size=4&check_interval=0", "cap5": "mem://?size=5&check_interval=0"}
D.STORES.update(CAP_STORES)


def capacity_cases(rng, thorough):
    cases = []
    cfg = {"decor": "hit", "ttl": 80, "inner": 0, "hits": 1, "upd": 0, "bg": 0, "store": "cap3"}
    alphabet = ["call a ok", "set f1", "set f2", "del f1"]
    for h in D.enumerate_histories(alphabet, 7 if thorough else 6):
        cases.append({"cfg": cfg, "ops": h})
    for _ in range(4000 if thorough else 500):
        size = rng.choice([3, 4, 5])
        cfg = {"decor": "hit", "ttl": rng.choice([16, 80]), "inner": 0, "hits": rng.choice([1, 2, 3]), "upd": rng.choice([0, 0, 1, 2]),
               "bg": 0, "store": f"cap{size}"}
        ops = []
        for _ in range(rng.randint(4, 16)):
            r = rng.random()
            if r < 0.45:
                ops.append("call %s %s" % ("a" if rng.random() < 0.85 else "b", "ok" if rng.random() < 0.85 else "lis"))
            elif r < 0.78:
                ops.append("set f%d" % rng.randint(1, size))
            elif r < 0.95:
                ops.append("del f%d" % rng.randint(1, size))
            else:
                ops.append("adv %d" % rng.choice([1, cfg["ttl"] // 2, cfg["ttl"]]))
        if ops and not ops[0].startswith("call"):
            ops.insert(0, "call a ok")
        cases.append({"cfg": cfg, "ops": ops})
    return cases
