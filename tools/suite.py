#!/usr/bin/env python3
"""Run the pinned suite of /repo (or REPO=<dir>) and compare with /root/.vp/BASELINE.json stable_pass.
exit 0 iff every stable_pass test passed."""
import json, os, subprocess, sys, tempfile, xml.etree.ElementTree as ET
repo = os.environ.get("REPO", "/repo")
base = json.load(open("/root/.vp/BASELINE.json"))
want = set(base["stable_pass"])
with tempfile.TemporaryDirectory() as d:
    x = os.path.join(d, "j.xml")
    env = dict(os.environ); env.pop("KRUKOV_CASHEWS_VERIF", None)
    env["PYTHONPATH"] = repo
    subprocess.run(["/venv/bin/python", "-m", "pytest", "-q", "-p", "no:cacheprovider", "--timeout=900",
                    "--continue-on-collection-errors", "--junitxml=" + x] + sys.argv[1:], cwd=repo, env=env,
                   stdout=subprocess.DEVNULL, stderr=subprocess.DEVNULL)
    passed = set()
    for tc in ET.parse(x).getroot().iter("testcase"):
        if not any(c.tag in ("failure", "error", "skipped") for c in tc):
            passed.add(f"{tc.get('classname')}::{tc.get('name')}")
missing = sorted(want - passed)
print(f"stable_pass={len(want)} passed_now={len(passed)} missing={len(missing)}")
for m in missing[:40]:
    print("  MISSING", m)
sys.exit(1 if missing else 0)
