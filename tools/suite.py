#!/usr/bin/env python3
"""Run the pinned suite of /repo (or REPO=<dir>) and compare with /root/.vp/BASELINE.json stable_pass.
exit 0 iff every stable_pass test passed."""
import json, os, subprocess, sys, tempfile, xml.etree.ElementTree as ET
repo = os.environ.get("REPO", "/repo")
base = json.load(open("/root/.vp/BASELINE.json"))
want = set(base["stable_pass"])
with tempfile.TemporaryDirectory() as d:
    x = os.path.join(d, "j.xml")
    env = dict(os.environ); env.pop("KRUKOV_CASHEWS_VERIF", None)
    env["PYTHONPATH"] = repo
    subprocess.run(["/venv/bin/python", "-m", "pytest", "-q", "-p", "no:cacheprovider", "--timeout=900",
                    "--continue-on-collection-errors", "--junitxml=" + x] + sys.argv[1:], cwd=repo, env=env,
                   stdout=subprocess.DEVNULL, stderr=subprocess.DEVNULL)
    passed = set()
    for tc in ET.parse(x).getroot().iter("testcase"):
        if not any(c.tag in ("failure", "error", "skipped") for c in tc):
            passed.add(f"{tc.get('classname')}::{tc.get('name')}")
missing = sorted(want - passed)
# timing-based tests (real sleeps of 10 ms) flake when the machine is loaded: re-run the missing ones alone, twice at most
for attempt in range(2):
    if not missing or len(missing) > 20:
        break
    ids = [m.replace(".", "/", m.split("::")[0].count(".")).replace("::", ".py::", 1) for m in missing]
    with tempfile.TemporaryDirectory() as d:
        x = os.path.join(d, "j.xml")
        subprocess.run(["/venv/bin/python", "-m", "pytest", "-q", "-p", "no:cacheprovider", "-p", "no:randomly", "--timeout=900",
                        "--junitxml=" + x] + ids, cwd=repo, env=env, stdout=subprocess.DEVNULL, stderr=subprocess.DEVNULL)
        try:
            for tc in ET.parse(x).getroot().iter("testcase"):
                if not any(c.tag in ("failure", "error", "skipped") for c in tc):
                    passed.add(f"{tc.get('classname')}::{tc.get('name')}")
        except Exception:
            pass
    retried = missing
    missing = sorted(want - passed)
    print(f"re-ran {len(retried)} missing test(s) alone: still missing {len(missing)}")
print(f"stable_pass={len(want)} passed_now={len(passed)} missing={len(missing)}")
for m in missing[:40]:
    print("  MISSING", m)
sys.exit(1 if missing else 0)
