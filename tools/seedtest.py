#!/usr/bin/env python3
"""Confirm a seeded property-breaking change and run the registered check against it.

usage: tools/seedtest.py <seeded dir with patch.diff, demo.py> <property id> [--tier quick|thorough] [--no-suite]

Everything happens in a scratch worktree of /repo under /tmp (removed afterwards); /repo is never touched.
Prints a JSON summary: demo on clean tree (must pass), demo on changed tree (must fail), pinned suite on the changed
tree (must keep every stable test passing), and the check's exit code / VIOLATION lines against the changed tree.
"""
import json
import os
import subprocess
import sys
import tempfile

VERIF = os.path.dirname(os.path.dirname(os.path.abspath(__file__)))


def sh(cmd, **kw):
    return subprocess.run(cmd, shell=True, capture_output=True, text=True, **kw)


def main():
    d = os.path.abspath(sys.argv[1])
    prop = sys.argv[2]
    tier = sys.argv[sys.argv.index("--tier") + 1] if "--tier" in sys.argv else "quick"
    wt = tempfile.mkdtemp(prefix=f"seedwt_{prop}_", dir="/tmp")
    os.rmdir(wt)
    res = {"dir": d, "property": prop, "tier": tier}
    try:
        r = sh(f"git -C /repo worktree add -q {wt} HEAD")
        assert r.returncode == 0, r.stderr
        demo = os.path.join(d, "demo.py")
        if os.path.exists(demo):
            r = sh(f"PYTHONPATH={wt} /venv/bin/python {demo}", cwd=wt, timeout=600)
            res["demo_clean_exit"] = r.returncode
        r = sh(f"git apply {os.path.join(d, 'patch.diff')}", cwd=wt)
        if r.returncode != 0:
            # /repo has moved on since the change was written (later `fix:` commits): three-way apply of the same edit
            r = sh(f"git apply --3way {os.path.join(d, 'patch.diff')} && git reset -q", cwd=wt)
            res["patch_applied_3way"] = r.returncode == 0
        res["patch_applies"] = r.returncode == 0
        if r.returncode != 0:
            res["patch_error"] = r.stderr[-300:]
            print(json.dumps(res, indent=1))
            return 2
        if os.path.exists(demo):
            r = sh(f"PYTHONPATH={wt} /venv/bin/python {demo}", cwd=wt, timeout=600)
            res["demo_changed_exit"] = r.returncode
        if "--no-suite" not in sys.argv:
            r = sh(f"REPO={wt} python3 {VERIF}/tools/suite.py", timeout=1800)
            res["suite"] = r.stdout.strip().splitlines()[0] if r.stdout.strip() else r.stderr[-200:]
            res["suite_ok"] = r.returncode == 0
        seeds = os.environ.get("SEEDS", "0").split(",")
        res["check"] = []
        for s in seeds:
            r = sh(f"VERIF_SEED={s} VERIF_REPO={wt} ./check {prop} --tier {tier}", cwd=VERIF, timeout=7200)
            lines = [l for l in r.stdout.splitlines() if l.startswith(("VIOLATION", "KNOWN-FINDING", "  ("))]
            res["check"].append({"seed": s, "exit": r.returncode, "lines": lines[:6], "stderr_tail": r.stderr[-300:] if r.returncode not in (0, 1) else ""})
        res["caught"] = all(c["exit"] == 1 for c in res["check"])
    finally:
        sh(f"git -C /repo worktree remove --force {wt}")
        sh(f"rm -rf {wt}")
    print(json.dumps(res, indent=1))
    return 0


if __name__ == "__main__":
    sys.exit(main())
