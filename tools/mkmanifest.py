#!/usr/bin/env python3
"""Assemble /verif/MANIFEST.json from manifest.d/*.json (one fragment per claimed property)."""
import json, glob, os
root = os.path.dirname(os.path.dirname(os.path.abspath(__file__)))
props = [json.loads(l) for l in open(os.path.join(root, "properties.jsonl"))]
frags = {}
for f in sorted(glob.glob(os.path.join(root, "manifest.d", "C*.json"))):
    d = json.load(open(f))
    frags[d["property_id"]] = d
na_reasons = json.load(open(os.path.join(root, "manifest.d", "not_applicable.json"))) if os.path.exists(os.path.join(root, "manifest.d", "not_applicable.json")) else {}
DRIVER_OF = {"C11": "driver_c01"}
def targets_of(pid):
    return [f"CashewsVerif.Props.{pid}", DRIVER_OF.get(pid, "driver_" + pid.lower())]
checks = []
for p in props:
    if p["id"] in frags:
        d = frags[p["id"]]
        d.setdefault("quick_cmd", f"./check {p['id']} --tier quick")
        d.setdefault("thorough_cmd", f"./check {p['id']} --tier thorough")
        d.setdefault("evidence_file", f"/verif/evidence/{p['id']}.json")
        d.setdefault("replay_cmd_template", f"./check {p['id']} --replay {{path}}")
        d.setdefault("engine", "lean4-proof+correspondence")
        checks.append(d)
m = {
    "version": 1,
    "setup_cmd": "cd lean && lake build " + " ".join(sorted(set(t for c in checks for t in targets_of(c["property_id"])))),
    "hooks": {
        "guard": "KRUKOV_CASHEWS_VERIF",
        "enable": "none needed: no source hooks were added to /repo; the harness instruments by subclassing and module patching (./check exports KRUKOV_CASHEWS_VERIF=1 anyway)",
        "baseline_off_cmd": "cd /repo && /venv/bin/python -m pytest -ra -q -p no:cacheprovider --timeout=900 --continue-on-collection-errors",
        "source_commits": [],
        "add_only": True,
    },
    "engines": [{
        "name": "lean4-proof+correspondence",
        "path": "/verif/check",
        "serves_properties": [c["property_id"] for c in checks],
        "kind_free_text": "Lean 4 theorems about hand-written executable models (lean/CashewsVerif), tied to /repo on every run by a differential correspondence check: the Python harness drives the real code under a virtual clock / deterministic scheduler and the compiled Lean model driver on the same histories and diffs the answers",
    }],
    "checks": checks,
    "not_applicable": [
        {"property_id": p["id"], "reason": na_reasons.get(p["id"], "check not built yet (construction in progress, see DESIGN.md section 7); not claimed")}
        for p in props if p["id"] not in frags
    ],
    "notes": "All checks: `./check <id> --tier quick|thorough [--replay <file>]`; seeds via VERIF_SEED; exit 0 / exit 1 with `VIOLATION property=<id> replay=<path>` (ending in no-failing-input-found when only a proof obligation or the model/implementation correspondence broke and no failing input was found) / exit 2 for a harness error. Known findings and the `fixed:` log of the defects repaired in /repo (73 unguarded `fix:` commits, D1-D73): known_findings.json, DESIGN.md sections 8 and 11. Independently seeded property-breaking changes (281, five rounds) with the verdict of each check: seeded/<id>/, DESIGN.md section 11.4. No source hooks were added to /repo.",
}
json.dump(m, open(os.path.join(root, "MANIFEST.json"), "w"), indent=1)
print("claimed:", [c["property_id"] for c in checks])
