#!/usr/bin/env python3
"""Print the as-built status tables (markdown) from evidence/*.json and seeded/*/meta.json."""
import glob, json, os
root = os.path.dirname(os.path.dirname(os.path.abspath(__file__)))
print("| id | theorems (audited = discharged) | correspondence cases (last committed run) | non-trivial | tier | wall s |")
print("|---|---|---|---|---|---|")
for f in sorted(glob.glob(os.path.join(root, "evidence", "C*.json"))):
    e = json.load(open(f)); c = e["coverage"]
    print(f"| {e['property_id']} | {c.get('obligations')} = {c.get('discharged')} | {c.get('evaluations')} | {c.get('distinct_nontrivial')} | {e['tier']} | {e['wall_s']} |")
print()
print("| seeded change | property | needs to manifest | caught by `./check` |")
print("|---|---|---|---|")
for f in sorted(glob.glob(os.path.join(root, "seeded", "*", "meta.json"))):
    m = json.load(open(f))
    caught = "yes" if m.get("caught_by_check") else "NO"
    if m.get("caught_by"):
        caught = "yes - by " + m["caught_by"]
    if m.get("obsolete_after"):
        caught = "obsolete: no longer breaks the property after " + m["obsolete_after"].split(":")[0] + " (was caught before)"
    if m.get("history"):
        caught += " (after strengthening; see meta.json)"
    print(f"| {m['id']} | {m['breaks_property']} | {m['needs_to_manifest'][:230]} | {caught} |")
