#!/usr/bin/env python3
"""Fold the results of tools/seedtest.py runs (JSON files given on the command line) into seeded/<id>/meta.json."""
import json, os, sys
root = os.path.dirname(os.path.dirname(os.path.abspath(__file__)))
for f in sys.argv[1:]:
    try:
        r = json.load(open(f))
    except Exception as exc:  # noqa: BLE001
        print("skip", f, exc); continue
    sid = os.path.basename(r["dir"])
    mp = os.path.join(root, "seeded", sid, "meta.json")
    m = json.load(open(mp))
    if not r.get("patch_applies"):
        print(sid, "PATCH DOES NOT APPLY"); continue
    m["check_result"] = r.get("check", [])
    if m.get("obsolete_after"):
        print(sid, "obsolete (kept as is)"); continue
    if m.get("caught_by") and not r.get("caught"):
        print(sid, "caught by another property's check (kept as is):", m["caught_by"]); continue
    m["caught_by_check"] = bool(r.get("caught"))
    if "demo_changed_exit" in r:
        m.setdefault("confirmed", {})["demo_fails_on_changed_tree"] = r["demo_changed_exit"] != 0
        m["confirmed"]["demo_passes_on_clean_tree"] = r.get("demo_clean_exit") == 0
    if "suite" in r:
        m.setdefault("confirmed", {})["pinned_suite_on_changed_tree"] = r["suite"]
    json.dump(m, open(mp, "w"), indent=1)
    print(sid, "caught" if m["caught_by_check"] else "MISSED", "demo", r.get("demo_clean_exit"), r.get("demo_changed_exit"))
