#!/bin/bash
# tools/mergefix.sh <branch>...  : merge builder/strengthening branches; evidence/MANIFEST conflicts take theirs
cd "$(dirname "$0")/.."
git checkout -q -- MANIFEST.json evidence 2>/dev/null
for b in "$@"; do
  if git merge --no-edit "$b" > /tmp/scratch/merge_$b.log 2>&1; then echo "merged $b"; else
    grep CONFLICT /tmp/scratch/merge_$b.log
    for f in $(git diff --name-only --diff-filter=U); do
      case "$f" in evidence/*|MANIFEST.json) git checkout --theirs "$f"; git add "$f";; *) echo "MANUAL: $f";; esac
    done
    if [ -z "$(git diff --name-only --diff-filter=U)" ]; then git commit -qm "Merge $b"; echo "merged $b (evidence conflicts resolved)"; else echo "STOP: unresolved in $b"; exit 1; fi
  fi
done
