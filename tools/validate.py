#!/opt/veriftools/pyvenv/bin/python
"""Validate MANIFEST.json and every evidence/*.json against the schemas in /root/.vp."""
import glob, json, os, sys
import jsonschema
root = os.path.dirname(os.path.dirname(os.path.abspath(__file__)))
bad = 0
def v(path, schema):
    global bad
    try:
        jsonschema.validate(json.load(open(path)), json.load(open(schema)))
        print("ok  ", path)
    except Exception as e:
        bad += 1
        print("BAD ", path, str(e).splitlines()[0])
v(os.path.join(root, "MANIFEST.json"), "/root/.vp/MANIFEST.schema.json")
for f in sorted(glob.glob(os.path.join(root, "evidence", "*.json"))):
    v(f, "/root/.vp/EVIDENCE.schema.json")
sys.exit(1 if bad else 0)
