#!/usr/bin/env python3
"""Confirm a seeded change (tools/seedtest.py incl. the pinned suite) and keep it as seeded/<id>/.
usage: tools/keepseed.py <agent out dir> <property> <id> "<needs to manifest>"  [--tier T]"""
import json, os, shutil, subprocess, sys
VERIF = os.path.dirname(os.path.dirname(os.path.abspath(__file__)))
src, prop, sid, needs = sys.argv[1:5]
extra = sys.argv[5:]
env = dict(os.environ); env.setdefault("SEEDS", "0,1")
r = subprocess.run([sys.executable, os.path.join(VERIF, "tools", "seedtest.py"), src, prop, *extra], capture_output=True, text=True, env=env)
res = json.loads(r.stdout)
ok = res.get("demo_clean_exit") == 0 and res.get("demo_changed_exit") == 1 and res.get("suite_ok")
dst = os.path.join(VERIF, "seeded", sid)
if ok:
    os.makedirs(dst, exist_ok=True)
    for f in os.listdir(src):
        sp = os.path.join(src, f)
        if f.endswith(".log") or f == "__pycache__":
            continue
        if os.path.isdir(sp):
            shutil.copytree(sp, os.path.join(dst, f), dirs_exist_ok=True, ignore=shutil.ignore_patterns("__pycache__", "*.pyc"))
        else:
            shutil.copy(sp, os.path.join(dst, f))
    meta = {
        "id": sid, "breaks_property": prop, "needs_to_manifest": needs,
        "confirmed": {"demo_passes_on_clean_tree": True, "demo_fails_on_changed_tree": True, "pinned_suite_on_changed_tree": res.get("suite")},
        "ran": [f"tools/seedtest.py <dir> {prop} {' '.join(extra)} (scratch worktree of /repo, patch applied, demo, tools/suite.py, ./check {prop} with VERIF_REPO=<worktree>, seeds {env['SEEDS']})"],
        "check_result": res["check"], "caught_by_check": res.get("caught"), "tier": res.get("tier"),
    }
    json.dump(meta, open(os.path.join(dst, "meta.json"), "w"), indent=1)
print(json.dumps({"id": sid, "kept": bool(ok), "caught": res.get("caught"), "suite": res.get("suite"), "demo": [res.get("demo_clean_exit"), res.get("demo_changed_exit")], "exits": [c["exit"] for c in res.get("check", [])]}))
